#!/usr/bin/env python3
"""Regenerates MANIFEST.json from the table below (claimed = a vmon/props/cNN.py exists and is listed in CLAIMED)."""
import json, os, subprocess, sys
HERE = os.path.dirname(os.path.dirname(os.path.abspath(__file__)))
props = [json.loads(l) for l in open(os.path.join(HERE, "properties.jsonl"))]

CLAIMED = {
 "C01": dict(tech="postcondition monitor on IFORM/ISORM _compute + reference Rosenblatt oracle over generated models",
    text="Every IFORM/ISORM contour computed from generated models (all 32 dependence structures of 2-4 variables, all shipped families, alpha 1e-8..0.5) is mapped back by a monitor through the model's own cdfs and an independent reference model; radius, directions, count, 2-D angles and the 2-D IFORM maximum are judged per point. Held on K monitored contours, not a proof.",
    note="trusted: numpy, scipy.special, the reference formulas (audited against scipy.stats), derived U-space tolerance (rounding of Phi(u), representability of x, absolute accuracy of the circular cdf)"),
 "C02": dict(tech="monitors at cumsum_biggest_until / _compute capturing cell probabilities, HDR mask and threshold; offline oracle with reference-cdf cell probabilities",
    text="For generated 2-D/3-D models, alphas and grids (anisotropic, scalar/list/array deltas, default limits, too-small limits, bimodal) the captured cell-probability array is compared with products of reference cdf differences; the captured mask must be a prefix of the descending order (ties tolerated), satisfy both content inequalities, fm must be the least enclosed density, a RuntimeWarning must appear exactly when the grid holds < 1-alpha, and the region must be recomputable from the public fm.",
    note="trusted: refmodel.py cdfs, math.fsum, slack N*eps; default 3-D grid not run (stated bound)"),
 "C03": dict(tech="postcondition monitor on DirectSamplingContour._compute: every vertex against both tangent lines with order-statistic brackets",
    text="For arbitrary 2-D clouds (ties, heavy tails, lattices, model samples), alpha 1e-4..0.3 and all 19 divisors of 360 in [1,60], every polygon vertex must lie on the two (1-alpha)-quantile tangent lines it joins (any standard empirical quantile accepted), there must be exactly 360/deg_step vertices with normals advancing by deg_step, and n = int(100/alpha) points are drawn when no sample is given.",
    note="trusted: numpy sort; vertex tolerance 1e-9*scale/sin(step)"),
 "C04": dict(tech="guarded per-ray probes (VIROCON_VERIF) locating each search result + oracle recomputing exceedance fractions from the sample",
    text="For AND and OR contours over generated non-negative samples (zeros, rounding), alphas, steps and allowed errors, every ray reported by the probe is judged: on its ray, exceedance recomputed with the documented strict inequalities within allowed_error unless the ray hit the 100-iteration cap (then the UserWarning must exist), the returned sequence, the OR keep/drop rule and both closing sequences.",
    note="trusted: the probe only locates events (theta, point, iterations); verdicts are recomputed from sample and point; falls to inconclusive if the probe is not reached"),
 "C05": dict(tech="per-call monitor on every Distribution.cdf/icdf/pdf vs independent reference formulas + relation checks",
    text="Every cdf/icdf/pdf call of every family (direct, with explicit parameters, nested) is compared with the documented formula evaluated by an independent reference; monotonicity, range, round trips, derivative, explicit==instance (bitwise) and array_like forms are judged on generated parameter vectors over several orders of magnitude.",
    note="trusted: numpy, scipy.special, refmodel.py (selftest/ref_audit.py cross-checks it against scipy.stats called directly); von Mises compared for kappa<50 on [mu-pi,mu+pi]"),
 "C06": dict(tech="postcondition monitor on GlobalHierarchicalModel.pdf (product of reference conditional densities) + reference nested-quadrature oracles for cdf / marginals + DKW band for Monte-Carlo quantiles",
    text="For 2-D/3-D specs over non-negative families and every dependence structure: each outermost joint-pdf call (float/int arrays, lists, tuples, row vectors) is compared with the product of reference conditional densities; cdf, marginal_pdf and marginal_cdf of conditional variables are compared with nested 1-D quadrature of reference cdfs/densities over the ancestors (another route than virocon's nquad); marginal_icdf must be exact for unconditional variables and within the DKW band of its documented sample size for conditional ones.",
    note="trusted: refmodel.py, scipy.integrate.quad (1e-6 abs + error estimates); non-negative families (the code integrates from 0); 3-D cdf only in the thorough tier (about 150 s per point)"),
 "C07": dict(tech="offline distribution-free (DKW / Naaman) checkers over recorded draw_sample outputs + bitwise reproducibility checks + conditional-distribution monitor",
    text="Samples of every family and of generated 2-D/3-D models (all structures) are drawn with None/int/Generator seeds (seed 0 included) and judged against the reference cdf (KS <= DKW bound at 1e-12), per component, per conditioning bin and jointly on the Rosenblatt image; equal seeds must reproduce bitwise, different seeds must differ; shapes (n,), (n,len), (n,n_dim).",
    note="trusted: DKW-Massart and Naaman inequalities (error probability 1e-12 per comparison), reference cdfs, numpy"),
 "C08": dict(tech="per-call monitor on ConditionalDistribution.pdf/cdf/icdf/draw_sample with harness-side evaluation of the dependence functions",
    text="Every template family x every fixed/dependent partition x random dependence shapes (chained, default-argument, scalar-returning): each call is compared with the reference family formula at the harness-evaluated dependence values; vector calls are replayed as scalar calls; seeded sampling is compared with the template's.",
    note="trusted: refmodel.py; the dependence callables are generated by the harness, which evaluates them itself"),
 "C11": dict(tech="state observation after Distribution construction and after every fit (fixed value in place, used by evaluation, free parameters estimated)",
    text="Every family (incl. VonMises, LogNormalNormFit, ScipyDistribution subclasses) x every non-empty proper subset of fixed parameters x MLE (and lsq/wlsq for the exponentiated Weibull) x data from the family and from other families: fixed values must be in .parameters at construction, be used by cdf/icdf, survive fitting to 1e-12, the free parameters must move, and fit must not raise for supported subsets.",
    note="trusted: refmodel.py; 'supported by the method' as stated in the evidence assumptions"),
 "C12": dict(tech="pre/post monitor on Distribution.fit(method='mle') recording start and fitted state; likelihood oracle with the reference pdf; metamorphic rescaling driver",
    text="For data generated from the regular region of each family the monitor records start and fitted parameters of every MLE fit; the oracle requires LL(fit) >= LL(start), >= LL(generating) (slack 1e-5 n + 1e-3), finite admissible estimates and scale-equivariance judged in likelihood space (closed-form families in parameter space).",
    note="trusted: reference log-pdf; regular region and slack constants are printed in the evidence; two open known findings (LogNormalNormFit moment estimator, unconverged 3-parameter Weibull search) keyed by verified mechanism"),
 "C13": dict(tech="postcondition monitor on ExponentiatedWeibullDistribution.fit vs an independent weighted regression + metamorphic drivers (weight scaling, row permutation, method alias)",
    text="Each least-squares fit over generated samples (zeros, ties, any order) and all weight specifications is compared with numpy-lstsq weighted quantile regression for the delta in force; free delta must be a local minimiser of the harness's own error; the driver re-fits with rescaled weights, permuted rows and the other method name.",
    note="trusted: numpy.linalg.lstsq; both readings of 'zeros are ignored' accepted; fmin's documented termination tolerances"),
 "C14": dict(tech="postcondition monitor on DependenceFunction._fit (bounds, constraints, local optimality, lstsq) + online trace checker over fit/_fit/callback events + order/re-fit drivers",
    text="Single fits over nine shapes with all kinds of bounds, active/inactive constraints (dict and list) and weights callables are judged for bounds, constraints, residual not above the start and no improving admissible +-1% perturbation, linear shapes against numpy lstsq; chains of length 2 and 3 (and the predefined alpha3/logistics4 pair inside a ConditionalDistribution) are fitted in every call/declaration order and re-fitted on other data; a trace checker requires the last fit of each dependent function to follow and see the final parameters of its conditioners, and final values must equal a topological-order fit.",
    note="trusted: numpy lstsq, the harness's own residual; open known finding (weights handed to curve_fit as sigma) keyed by optimality in the inverse-weight metric"),
 "C15": dict(tech="harness-side boundary-cell/BFS recomputation from the captured HDR mask + permutation postcondition on the line sorter (both bindings)",
    text="The boundary cells and their components are recomputed with explicit neighbour shifts and a BFS from the captured mask and compared as multisets with the returned coordinates for 2-D/3-D, isotropic/anisotropic grids; the sorter is driven with regular, anisotropic, irregular, clustered, collinear and duplicate point sets and must return a permutation.",
    note="trusted: numpy; open known finding (sorter drops every point outside one component of its 2-NN graph) keyed by recomputing that graph"),
 "C09": dict(tech="recording monitors on slice_, Distribution.fit and DependenceFunction.fit inside GlobalHierarchicalModel.fit + offline checker + permutation / re-fit history drivers",
    text="Every joint fit over generated 2-D/3-D data (ties, rounding, any row order, all three slicers, MLE and (w)lsq) is recorded; the checker recomputes interval membership from the reported boundaries, re-fits a deep copy of the template to exactly those rows, checks the (x, y) handed to each dependence fit and the (method, weights) of every call against its own dimension, and compares fits across row orders, re-fits on permuted rows and re-fits on other data against a fresh model.",
    note="trusted: numpy; tolerances stated in the evidence; open known finding (PointsPerIntervalSlicer splits tied values across intervals by row order) keyed by identical per-interval conditioning values + a tie straddling a cut"),
 "C10": dict(tech="postcondition monitor on IntervalSlicer.slice_ over an exhaustively driven edge lattice + random long vectors",
    text="All data vectors up to length 4 (quick) / 5 (thorough) over the half-width lattice for five widths, in every order, times the listed slicer configurations, plus random long rounded vectors: each slice_ call is judged by a monitor (exactly-one membership in the covered range, alignment, boundaries, references, dropped set, RuntimeError rule).",
    note="trusted: numpy comparisons; 'before dropping' is observed by re-running the same configuration with min_n_points=min_n_intervals=0"),
 "C16": dict(tech="exact-law oracles (closed-form conditional of the Hs-steepness structure, quadrature) over recorded Monte-Carlo samples with DKW bands; guarded probe of the rejection sampler's support search; bitwise reproducibility",
    text="Shipped transformations are round-tripped on (1e-3,1e2)^2 and the predefined Jacobians compared with numerical ones; TransformedModel.pdf/cdf/empirical_cdf/draw_sample are compared with the exact push-forward of the reference density; conditional_sample/cdf/icdf are judged against the exact conditional law for conditioning values from the 1e-6 to the 1-1e-8 quantile; every point of transformed IFORM contours is judged against the exact Rosenblatt image within the DKW band of the documented sample size, and equal random_state must reproduce the contour bitwise.",
    note="trusted: refmodel.py, quad, DKW/Naaman at 1e-12; the probe only attributes truncation to the support search; open known finding (support search thresholds the joint density)"),
 "C17": dict(tech="postcondition monitors on calculate_design_conditions and intersection (all bindings) vs brute-force segment arithmetic",
    text="For IFORM/ISORM/direct-sampling contours of random models and random convex/star-shaped polygons (negative ordinates, several crossings), all steps forms (None, int, float/int lists, ranges, arrays, outside the range) and both swap_axis values, every returned design condition must be a requested crossing abscissa with the largest brute-force ordinate; intersection() must return exactly the brute-force crossings of random polyline pairs.",
    note="trusted: the harness's own segment arithmetic; general position enforced by the generator; tolerance 1e-9*scale"),
 "C18": dict(tech="fault injection at the API boundary with a non-faulty control per injection",
    text="29 kinds of malformation are injected at every applicable dimension/position of valid 1-4-dimensional descriptions (all families as carriers), singly and in pairs; the consuming operation must raise and return nothing, while the control (same description without the fault) must succeed - so 'reject everything' cannot pass.",
    note="'where supplied' = no later than the first operation consuming the specification; any exception type counts (types are in the evidence)"),
 "C19": dict(tech="snapshot (OLD) / compare monitors on every public evaluation entry point + history driver over the predefined getters + id-graph walk",
    text="A deep snapshot of the model (attributes, parameter dicts, dependence-function state, class-level containers) and copies of the caller's arrays are taken before each outermost public evaluation call and compared after it; deterministic calls are repeated; random histories of evaluate/contour/fit-another/re-create/fit-again over the six predefined getters must leave model A and its values unchanged and make fresh fits history-independent; two getter calls must share no mutable node.",
    note="trusted: the snapshot reaches instance state recursively, closure cells, function defaults and class-level containers of virocon classes"),
 "C20": dict(tech="save monitor re-reading the written file; recording wrappers on matplotlib Axes.plot/scatter/contour/hist; reader round trip on synthetic files",
    text="Saved files are re-read (header, row count/order, values to 6 decimals, '.txt' rule) for all six contour classes in 2-D and 3-D with arbitrary semantics and paths; what plot_2D_contour and the other plot functions hand to matplotlib is compared with the contour's closed polyline, samples, design conditions, model.pdf, dependence-function values and per-interval estimates; read_ec_benchmark_dataset is checked on synthetic benchmark-format files of 1..1e4 rows.",
    note="trusted: matplotlib Agg (what reaches Axes.plot/scatter/contour/hist is what is drawn), pandas only as the system under test"),
}
LEVEL = {"C18": "fault_enumeration"}

def main():
    hooks_commits = []
    try:
        out = subprocess.run(["git", "-C", "/repo", "log", "--format=%h %s"], capture_output=True, text=True).stdout
        hooks_commits = [l.split()[0] for l in out.splitlines() if l.split(" ", 1)[1].startswith("verif-hook:")]
    except Exception:
        pass
    checks, na = [], []
    for p in props:
        pid = p["id"]
        if pid in CLAIMED and os.path.exists(os.path.join(HERE, "vmon", "props", pid.lower() + ".py")):
            c = CLAIMED[pid]
            checks.append({
                "property_id": pid,
                "quick_cmd": f"./check {pid} --tier quick",
                "thorough_cmd": f"./check {pid} --tier thorough",
                "evidence_file": f"evidence/{pid}.json",
                "replay_cmd_template": f"./check {pid} --replay {{path}}",
                "engine": "vmon",
                "level_claimed": {"category": LEVEL.get(pid, "exploration"), "text": c["text"], "design_ref": f"DESIGN.md section 4, {pid}"},
                "level_note": c["note"],
                "technique": "runtime monitoring: " + c["tech"],
            })
        else:
            na.append({"property_id": pid, "reason": "no sound runtime-monitoring check could be built for this property (see DESIGN.md section 5)"})
    m = {
        "version": 1,
        "setup_cmd": "./setup.sh",
        "hooks": {
            "guard": "VIROCON_VERIF",
            "enable": "export VIROCON_VERIF=1 (./check does it); nothing to build - /venv imports /repo editable and ./check puts /repo first on PYTHONPATH",
            "baseline_off_cmd": "cd /repo && env -u VIROCON_VERIF /venv/bin/python -m pytest -ra -q -p no:cacheprovider --timeout=900 --continue-on-collection-errors",
            "source_commits": hooks_commits,
            "add_only": True,
        },
        "engines": [{"name": "vmon", "path": "vmon/", "serves_properties": [c["property_id"] for c in checks],
                     "kind_free_text": "runtime monitors (wrappers/contracts on the real virocon functions, guarded probes) + reference-model oracles over generated workloads, sharded over worker subprocesses"}],
        "checks": checks,
        "not_applicable": na,
        "notes": "All checks: ./check <ID> --tier quick|thorough [--replay path]; VERIF_SEED seeds every random choice; exit 0 held / 1 VIOLATION / 2 INCONCLUSIVE. Known findings: known_findings.json (by mechanism).",
    }
    json.dump(m, open(os.path.join(HERE, "MANIFEST.json"), "w"), indent=1)
    print("claimed:", [c["property_id"] for c in checks])

if __name__ == "__main__":
    main()
