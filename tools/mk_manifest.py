#!/usr/bin/env python3
"""Regenerates MANIFEST.json from the table below (claimed = a vmon/props/cNN.py exists and is listed in CLAIMED)."""
import json, os, subprocess, sys
HERE = os.path.dirname(os.path.dirname(os.path.abspath(__file__)))
props = [json.loads(l) for l in open(os.path.join(HERE, "properties.jsonl"))]

CLAIMED = {
 "C01": dict(tech="postcondition monitor on IFORM/ISORM _compute + reference Rosenblatt oracle over generated models",
    text="Every IFORM/ISORM contour computed from generated models (all 32 dependence structures of 2-4 variables, all shipped families, alpha 1e-8..0.5) is mapped back by a monitor through the model's own cdfs and an independent reference model; radius, directions, count, 2-D angles and the 2-D IFORM maximum are judged per point. Held on K monitored contours, not a proof.",
    note="trusted: numpy, scipy.special, the reference formulas (audited against scipy.stats), derived U-space tolerance (rounding of Phi(u), representability of x, absolute accuracy of the circular cdf)"),
 "C05": dict(tech="per-call monitor on every Distribution.cdf/icdf/pdf vs independent reference formulas + relation checks",
    text="Every cdf/icdf/pdf call of every family (direct, with explicit parameters, nested) is compared with the documented formula evaluated by an independent reference; monotonicity, range, round trips, derivative, explicit==instance (bitwise) and array_like forms are judged on generated parameter vectors over several orders of magnitude.",
    note="trusted: numpy, scipy.special, refmodel.py (selftest/ref_audit.py cross-checks it against scipy.stats called directly); von Mises compared for kappa<50 on [mu-pi,mu+pi]"),
 "C10": dict(tech="postcondition monitor on IntervalSlicer.slice_ over an exhaustively driven edge lattice + random long vectors",
    text="All data vectors up to length 4 (quick) / 5 (thorough) over the half-width lattice for five widths, in every order, times the listed slicer configurations, plus random long rounded vectors: each slice_ call is judged by a monitor (exactly-one membership in the covered range, alignment, boundaries, references, dropped set, RuntimeError rule).",
    note="trusted: numpy comparisons; 'before dropping' is observed by re-running the same configuration with min_n_points=min_n_intervals=0"),
}
LEVEL = {"C18": "fault_enumeration"}

def main():
    hooks_commits = []
    try:
        out = subprocess.run(["git", "-C", "/repo", "log", "--format=%h %s"], capture_output=True, text=True).stdout
        hooks_commits = [l.split()[0] for l in out.splitlines() if l.split(" ", 1)[1].startswith("verif-hook:")]
    except Exception:
        pass
    checks, na = [], []
    for p in props:
        pid = p["id"]
        if pid in CLAIMED and os.path.exists(os.path.join(HERE, "vmon", "props", pid.lower() + ".py")):
            c = CLAIMED[pid]
            checks.append({
                "property_id": pid,
                "quick_cmd": f"./check {pid} --tier quick",
                "thorough_cmd": f"./check {pid} --tier thorough",
                "evidence_file": f"evidence/{pid}.json",
                "replay_cmd_template": f"./check {pid} --replay {{path}}",
                "engine": "vmon",
                "level_claimed": {"category": LEVEL.get(pid, "exploration"), "text": c["text"], "design_ref": f"DESIGN.md section 4, {pid}"},
                "level_note": c["note"],
                "technique": "runtime monitoring: " + c["tech"],
            })
        else:
            na.append({"property_id": pid, "reason": "check under construction in this session; will move to 'checks' when its monitor is running"})
    m = {
        "version": 1,
        "setup_cmd": "./setup.sh",
        "hooks": {
            "guard": "VIROCON_VERIF",
            "enable": "export VIROCON_VERIF=1 (./check does it); nothing to build - /venv imports /repo editable and ./check puts /repo first on PYTHONPATH",
            "baseline_off_cmd": "cd /repo && env -u VIROCON_VERIF /venv/bin/python -m pytest -ra -q -p no:cacheprovider --timeout=900 --continue-on-collection-errors",
            "source_commits": hooks_commits,
            "add_only": True,
        },
        "engines": [{"name": "vmon", "path": "vmon/", "serves_properties": [c["property_id"] for c in checks],
                     "kind_free_text": "runtime monitors (wrappers/contracts on the real virocon functions, guarded probes) + reference-model oracles over generated workloads, sharded over worker subprocesses"}],
        "checks": checks,
        "not_applicable": na,
        "notes": "All checks: ./check <ID> --tier quick|thorough [--replay path]; VERIF_SEED seeds every random choice; exit 0 held / 1 VIOLATION / 2 INCONCLUSIVE. Known findings: known_findings.json (by mechanism).",
    }
    json.dump(m, open(os.path.join(HERE, "MANIFEST.json"), "w"), indent=1)
    print("claimed:", [c["property_id"] for c in checks])

if __name__ == "__main__":
    main()
