"""Installation of monitors on virocon's real functions.

`wrap(owner, name, post=..., pre=...)` replaces `owner.name` (class attribute
or module global) by a recording wrapper.  `post(call)` is evaluated after the
original returned (or raised); it reports into the *current* case context
(`current()`), records and returns - it never aborts the observed call.

Oracles evaluate virocon functions themselves (e.g. the Rosenblatt transform
through the model's own cdf).  While an oracle runs, `quiet()` suppresses the
monitors so that the oracle's calls are not mistaken for workload events.
"""
import contextlib
import functools
import threading
import types

from . import ctx as _ctx

_state = threading.local()
_installed = {}
CURRENT = [None]


def current():
    return CURRENT[0]


def set_current(c):
    CURRENT[0] = c


def _depth():
    return getattr(_state, "quiet", 0)


@contextlib.contextmanager
def quiet():
    _state.quiet = _depth() + 1
    try:
        yield
    finally:
        _state.quiet = _depth() - 1


class Call:
    __slots__ = ("owner", "name", "self", "args", "kwargs", "result", "exc", "pre")

    def __init__(self, owner, name, self_, args, kwargs):
        self.owner = owner
        self.name = name
        self.self = self_
        self.args = args
        self.kwargs = kwargs
        self.result = None
        self.exc = None
        self.pre = None


def wrap(owner, name, post=None, pre=None, tag=None, is_method=True, outermost_only=False):
    """Install a monitor.  Idempotent per (owner, name, tag).
    outermost_only: observe a call only when no other monitored call of the same tag is active
    (state snapshots around entry points: nested calls are part of the observed call)."""
    key = (id(owner), name, tag)
    if key in _installed:
        return
    raw = owner.__dict__[name] if isinstance(owner, type) else getattr(owner, name)
    static = isinstance(raw, staticmethod)
    orig = raw.__func__ if static else raw

    @functools.wraps(orig)
    def monitored(*args, **kwargs):
        c = current()
        if c is None or _depth() > 0:
            return orig(*args, **kwargs)
        if outermost_only:
            active = getattr(_state, "active", None)
            if active is None:
                active = _state.active = {}
            if active.get(tag, 0) > 0:
                return orig(*args, **kwargs)
            active[tag] = active.get(tag, 0) + 1
            try:
                return _observed(args, kwargs)
            finally:
                active[tag] -= 1
        return _observed(args, kwargs)

    def _observed(args, kwargs):
        if is_method and not static and isinstance(owner, type):
            call = Call(owner, name, args[0], args[1:], kwargs)
        else:
            call = Call(owner, name, None, args, kwargs)
        if pre is not None:
            with quiet():
                call.pre = pre(call)
        try:
            call.result = orig(*args, **kwargs)
        except BaseException as e:  # noqa: BLE001 - recorded, re-raised
            call.exc = e
            if type(e).__name__ in ("CaseTimeout", "KeyboardInterrupt", "SystemExit", "MemoryError"):
                raise  # the harness's own watchdog (wall clock) is never an observation about the code: inconclusive
            if post is not None:
                with quiet():
                    post(call)
            raise
        if post is not None:
            with quiet():
                post(call)
        return call.result

    monitored.__vmon_orig__ = orig
    setattr(owner, name, staticmethod(monitored) if static else monitored)
    _installed[key] = (owner, name, raw)


def unwrap_all():
    for owner, name, raw in _installed.values():
        setattr(owner, name, raw)
    _installed.clear()


def original(f):
    return getattr(f, "__vmon_orig__", f)
