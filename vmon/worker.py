"""Worker process: runs the cases of one shard with the monitors installed."""
import json
import os
import signal
import sys
import time
import traceback
import warnings

from . import monitors
from .ctx import Ctx, origin_of_exception


class CaseTimeout(Exception):
    pass


def _alarm(signum, frame):
    raise CaseTimeout()


def run_one(mod, case, install=False, case_timeout=None):
    if install:
        _install(mod)
    c = Ctx(case)
    monitors.set_current(c)
    # virocon's unseeded draws use numpy's global generator: make every case (and its replay) a deterministic function of
    # (VERIF_SEED, case id) - verdicts never depend on it (DKW bounds at 1e-12), evidence and replays do
    try:
        import random as _random

        import numpy as _np

        _s = (int(os.environ.get("VERIF_SEED", "0")) * 1000003 + int(case.get("id", 0) or 0) * 7919 + 12345) % (2**32)
        _np.random.seed(_s)
        _random.seed(_s)
    except Exception:  # noqa: BLE001
        pass
    t0 = time.time()
    case_timeout = case_timeout or int(case.get("timeout", getattr(mod, "CASE_TIMEOUT_S", 600)))
    old = signal.signal(signal.SIGALRM, _alarm)
    signal.alarm(int(case_timeout))
    try:
        with warnings.catch_warnings():
            warnings.simplefilter("ignore")
            mod.run_case(case, c)
    except CaseTimeout:
        c.inconcl(f"case watchdog fired after {case_timeout}s")
    except MemoryError:
        c.inconcl("MemoryError in case")
    except Exception as e:  # noqa: BLE001
        where, func = origin_of_exception(e)
        tb = traceback.format_exc()[-1500:]
        if where == "virocon" and not getattr(mod, "EXCEPTIONS_ARE_INCONCLUSIVE", False):
            # the real code raised on an input the workload generated as admissible
            c.count("uncaught-exception")
            c.violation(
                f"unexpected-exception:{type(e).__name__} in {func}",
                mechanism=None,
                message=str(e)[:300],
                traceback=tb,
            )
        else:
            c.inconcl(f"harness-error {type(e).__name__}: {str(e)[:200]} @ {func} :: {tb[-600:]}")
    finally:
        signal.alarm(0)
        signal.signal(signal.SIGALRM, old)
        monitors.set_current(None)
    r = c.result()
    r["wall_s"] = round(time.time() - t0, 3)
    return r


_done_install = set()


def _install(mod):
    if mod.ID in _done_install:
        return
    _done_install.add(mod.ID)
    inst = getattr(mod, "install", None)
    if inst is not None:
        inst()


def main(argv):
    pid, inp, outp = argv[1], argv[2], argv[3]
    import importlib

    import matplotlib

    matplotlib.use("Agg")
    mod = importlib.import_module(f"vmon.props.{pid.lower()}")
    _install(mod)
    with open(inp) as f:
        cases = json.load(f)
    with open(outp, "w") as out:
        for case in cases:
            r = run_one(mod, case)
            out.write(json.dumps(r) + "\n")
            out.flush()
    return 0


if __name__ == "__main__":
    sys.exit(main(sys.argv))
