"""Monitor + oracle for IntervalSlicer.slice_ (C10; reused by C09)."""
import copy
import math

import numpy as np

from . import monitors as M


def kind_of(slicer):
    return type(slicer).__name__


def _cfg(slicer):
    d = {"kind": kind_of(slicer)}
    for k in ("width", "n_intervals", "n_points", "right_open", "include_max", "last_full", "value_range", "min_n_points", "min_n_intervals"):
        if hasattr(slicer, k):
            v = getattr(slicer, k)
            d[k] = v if not callable(v) else getattr(v, "__name__", "callable")
    ref = getattr(slicer, "reference", None)
    d["reference"] = ref if isinstance(ref, str) else getattr(ref, "__name__", repr(ref))
    return d


def _member_ok(kind, slicer, v, lo, hi, is_last):
    if kind == "WidthOfIntervalSlicer":
        return (lo <= v < hi) if slicer.right_open else (lo < v <= hi)
    if kind == "NumberOfIntervalsSlicer":
        if is_last and slicer.include_max:
            return lo <= v <= hi
        return lo <= v < hi
    return lo <= v <= hi


CFG_KEYS = ("width", "n_intervals", "n_points", "right_open", "include_max", "last_full", "value_range", "min_n_points", "min_n_intervals", "reference")


def remember_configuration(slicer, **given):
    """Called by the drivers right after construction: the configuration the USER gave.  The oracle judges against it
    (a slicer that rewrites its own configuration during slice_ - or in its constructor - must not be able to move the
    goal posts).  `given`: the keyword arguments the driver passed; an option that was NOT passed has its documented
    default (min_n_points = 50, min_n_intervals = 3; for the points-per-interval slicer min_n_points is at most n_points)."""
    cfg = {k: getattr(slicer, k) for k in CFG_KEYS if hasattr(slicer, k)}
    if given.get("_explicit") is not None:
        explicit = given["_explicit"]
        # only options that were NOT passed are replaced by their documented default (with the constructors' documented
        # clamps: at most n_points points, at most n_intervals intervals); passed options stay as constructed
        if "min_n_points" not in explicit:
            cfg["min_n_points"] = min(50, slicer.n_points) if kind_of(slicer) == "PointsPerIntervalSlicer" else 50
        if "min_n_intervals" not in explicit:
            cfg["min_n_intervals"] = min(3, slicer.n_intervals) if kind_of(slicer) == "NumberOfIntervalsSlicer" else 3
    slicer._vmon_cfg = cfg
    return slicer


def judge(c, slicer, data, result, exc, tag="slice"):
    """Oracle over one observed slice_ call.  c: Ctx."""
    kind = kind_of(slicer)
    constructed = getattr(slicer, "_vmon_cfg", None)
    if constructed is not None:
        live = {k: getattr(slicer, k) for k in constructed}
        same = all((live[k] is constructed[k]) or (live[k] == constructed[k]) for k in constructed)
        if not same:
            # not a violation by itself (the property does not forbid normalising a stored option); what counts is that
            # every call is still sliced as CONFIGURED - so the call is judged against the configuration as constructed
            c.count(f"{tag}.configuration-rewritten-by-slice_(judged-against-constructed)")
        if not same:
            # judge against the configuration as constructed
            slicer = copy.copy(slicer)
            for k, v in constructed.items():
                setattr(slicer, k, v)
    data = np.asarray(data)
    data_as_given = data
    if data.dtype.kind == "f" and data.dtype.itemsize < 8:
        # the oracle compares in double precision (the conversion is exact); the slicer gets the caller's array
        data = data.astype(np.float64)
    cfg = _cfg(slicer)
    n = len(data)
    c.count(f"{tag}.calls[{kind}]")

    # ---- state before dropping: same configuration with min_n_points = min_n_intervals = 0
    s0 = copy.copy(slicer)
    s0.min_n_points = 0
    s0.min_n_intervals = 0
    try:
        masks0, refs0, bounds0 = s0.slice_(data_as_given)
    except Exception as e:  # noqa: BLE001
        c.inconcl(f"slice_ with min_n_points=0 raised {type(e).__name__}: {e} cfg={cfg}")
        return
    masks0 = [np.asarray(m) for m in masks0]
    counts0 = [int(np.sum(m)) for m in masks0]

    def V(name, ok, what, mechanism=None, **kw):
        c.check(f"{tag}.{name}", ok, what, mechanism, config=cfg, data=data.tolist() if n <= 12 else data, **kw)

    # (a) masks are aligned with the input positions
    al = all(m.dtype == bool and m.shape == (n,) for m in masks0)
    V("aligned", al, "mask not a boolean array over the input positions")
    if not al:
        return
    member = np.sum(np.stack(masks0), axis=0) if masks0 else np.zeros(n, int)

    # (b) members inside their reported boundaries
    bad_b = None
    for i, (m, (lo, hi)) in enumerate(zip(masks0, bounds0)):
        for v in data[m]:
            if not _member_ok(kind, slicer, v, lo, hi, i == len(masks0) - 1):
                bad_b = (i, float(v), float(lo), float(hi))
                break
        if bad_b:
            break
    mech = None
    if bad_b and kind == "PointsPerIntervalSlicer" and _ppi_sorted_space(slicer, data, masks0):
        mech = "ppi-masks-in-sorted-position-space"
    V("members-in-bounds", bad_b is None, "interval member outside its reported boundaries", mech, witness=bad_b)

    # (c) boundaries do not overlap
    ov = None
    for i in range(len(bounds0) - 1):
        if bounds0[i][1] > bounds0[i + 1][0]:
            ov = (i, float(bounds0[i][1]), float(bounds0[i + 1][0]))
            break
    V("no-overlap", ov is None, "reported boundaries overlap", _edge_mech(kind) if ov else None, witness=ov)

    # (d) exactly one interval per observation inside the covered range
    if bounds0:
        lo_all, hi_all = bounds0[0][0], bounds0[-1][1]
        if kind == "WidthOfIntervalSlicer":
            inside = (data >= lo_all) & (data < hi_all) if slicer.right_open else (data > lo_all) & (data <= hi_all)
        elif kind == "NumberOfIntervalsSlicer":
            inside = (data >= lo_all) & ((data <= hi_all) if slicer.include_max else (data < hi_all))
        else:
            inside = (data >= lo_all) & (data <= hi_all)
        # the covered value range is the *configured* one as well (documented defaults: 0..max(data) for the
        # width slicer, min..max for the number-of-intervals slicer): an interval missing at the top of the
        # range must not shrink the range that is judged
        if kind == "WidthOfIntervalSlicer" and n > 0:
            vr = slicer.value_range or (None, None)
            c_lo = 0 if vr[0] is None else vr[0]
            c_hi = np.max(data) if vr[1] is None else vr[1]
            inside_cfg = ((data >= c_lo) if slicer.right_open else (data > c_lo)) & (data <= c_hi)
            inside = inside | inside_cfg
        elif kind == "NumberOfIntervalsSlicer" and n > 0:
            vr = slicer.value_range or (np.min(data), np.max(data))
            inside_cfg = (data >= vr[0]) & ((data <= vr[1]) if slicer.include_max else (data < vr[1]))
            inside = inside | inside_cfg
        wrong = inside & (member != 1)
        wit = None
        if np.any(wrong):
            j = int(np.argmax(wrong))
            wit = {"position": j, "value": float(data[j]), "n_intervals_containing_it": int(member[j])}
        mech = None
        if wit is not None:
            if kind == "PointsPerIntervalSlicer":
                mech = None
            else:
                mech = _edge_mech(kind) if _is_edge_value(data[j], bounds0) else None
        V("exactly-one", wit is None, "observation in the covered range is in zero or several intervals", mech, witness=wit)
        # outside the covered range: in no interval
        outside_in = (~inside) & (member > 0) & False  # (kept for the count) everything assigned is inside by construction
        V("outside-in-none", not np.any(outside_in), "observation outside the covered range assigned to an interval")

    # (d2) the width slicer's intervals start at the lower limit of the value range and depend on the range only through
    # its length: the same request shifted to start at 0 has the same number of intervals (judged where (hi-lo)/width is
    # not within 1 % of an integer, so that float rounding of the count cannot matter)
    if kind == "WidthOfIntervalSlicer" and n > 0 and slicer.value_range is not None and slicer.value_range[0] not in (None, 0):
        lo_ = float(slicer.value_range[0])
        hi_ = float(np.max(data)) if slicer.value_range[1] is None else float(slicer.value_range[1])
        ratio = (hi_ - lo_) / float(slicer.width)
        if hi_ > lo_ and 0.01 <= ratio - math.floor(ratio) <= 0.99:
            sh = copy.copy(s0)
            sh.value_range = (0, hi_ - lo_)
            try:
                _, _, bsh = sh.slice_(np.asarray(data, float) - lo_)
                V("translation-invariant", len(bsh) == len(bounds0), "the number of intervals changes when value range and data are shifted together", witness={"value_range": [lo_, hi_], "intervals": len(bounds0), "shifted_to_zero": len(bsh)})
            except Exception:  # noqa: BLE001
                c.count(f"{tag}.translation-shifted-call-raised")

    # (e) include_max
    if kind == "NumberOfIntervalsSlicer" and slicer.include_max and n > 0 and slicer.value_range is None:
        j = int(np.argmax(data))
        V(
            "include-max",
            member[j] == 1,
            "maximum not in exactly one interval although include_max is set",
            "noi-last-edge-rounding" if member[j] == 0 else None,
            witness={"max": float(data[j]), "n": int(member[j]), "last_boundary": [float(b) for b in bounds0[-1]]},
        )

    # (f) references
    ref = slicer.reference
    okr, wit = True, None
    # (a range derived from single-precision data is computed in single precision: centre/left/right to that precision)
    rt = max(1e-12, 4 * float(np.finfo(data_as_given.dtype).eps)) if data_as_given.dtype.kind == "f" else 1e-12
    for i, (m, r, (lo, hi)) in enumerate(zip(masks0, refs0, bounds0)):
        if callable(ref):
            with np.errstate(all="ignore"):
                want = ref(data_as_given[m])  # (the callable sees the caller's values in the caller's dtype)
            same = (want == r) or (np.isnan(want) and np.isnan(r))
        elif isinstance(ref, str) and ref.lower() == "center":
            same = abs(r - (lo + hi) / 2) <= rt * max(1.0, abs(hi), abs(lo))
        elif isinstance(ref, str) and ref.lower() == "left":
            same = abs(r - lo) <= rt * max(1.0, abs(lo))
        elif isinstance(ref, str) and ref.lower() == "right":
            same = abs(r - hi) <= rt * max(1.0, abs(hi))
        else:
            same = True
        if not same:
            okr, wit = False, (i, float(r), float(lo), float(hi))
            break
    V("references", okr, "reference value is not the configured centre/left/right/callable", witness=wit)

    # PPI: chunk sizes and order consistency
    if kind == "PointsPerIntervalSlicer" and n >= slicer.n_points:
        rem = n % slicer.n_points
        full = n // slicer.n_points
        want = [slicer.n_points] * full
        if rem:
            want = ([rem] + want) if slicer.last_full else (want + [rem])
        V("ppi-sizes", counts0 == want, "interval sizes differ from n_points chunks", witness={"got": counts0, "want": want})
        okord = True
        for i in range(len(masks0) - 1):
            a, b = data[masks0[i]], data[masks0[i + 1]]
            if a.size and b.size and a.max() > b.min():
                okord = False
                break
        V(
            "ppi-order",
            okord,
            "a lower interval holds a larger observation than a higher interval",
            "ppi-masks-in-sorted-position-space" if (not okord and _ppi_sorted_space(slicer, data, masks0)) else None,
        )

    # (g) the observed call: dropped set and RuntimeError rule
    keep = [i for i, k in enumerate(counts0) if k >= slicer.min_n_points]
    if exc is not None:
        if isinstance(exc, RuntimeError):
            V("too-few-raises", len(keep) < slicer.min_n_intervals, "RuntimeError although enough intervals remain", witness={"kept": len(keep)})
        else:
            V("no-other-exception", False, f"slice_ raised {type(exc).__name__}", message=str(exc)[:200])
        return
    masks, refs, bounds = result
    V("too-few-raises", len(keep) >= slicer.min_n_intervals, "fewer than min_n_intervals intervals returned without RuntimeError", witness={"kept": len(keep)})
    same = len(masks) == len(keep) and all(np.array_equal(np.asarray(masks[j]), masks0[i]) for j, i in enumerate(keep))
    V("dropped-set", same, "returned intervals are not exactly those with at least min_n_points observations", witness={"counts_before": counts0, "returned": [int(np.sum(m)) for m in masks]})
    if same and kind != "PointsPerIntervalSlicer":
        sb = all(tuple(bounds[j]) == tuple(bounds0[i]) for j, i in enumerate(keep))
        V("dropped-bounds", sb, "boundaries of kept intervals changed by dropping")
    if same and kind == "PointsPerIntervalSlicer" and len(masks):
        # documented: boundary between neighbours = mean(max lower, min upper); ends = min / max of the data kept
        okb = True
        lo = float(np.min(data[np.asarray(masks[0])]))
        for j in range(len(masks)):
            cur = data[np.asarray(masks[j])]
            hi = float(np.max(cur)) if j == len(masks) - 1 else (float(np.max(cur)) + float(np.min(data[np.asarray(masks[j + 1])]))) / 2
            if not (abs(bounds[j][0] - lo) <= 1e-12 * max(1, abs(lo)) and abs(bounds[j][1] - hi) <= 1e-12 * max(1, abs(hi))):
                okb = False
                break
            lo = hi
        V("ppi-bounds", okb, "PPI boundaries are not the documented midpoints")


def _edge_mech(kind):
    return {"WidthOfIntervalSlicer": "woi-neighbour-edges-differ-by-ulps", "NumberOfIntervalsSlicer": "noi-neighbour-edges-differ-by-ulps"}.get(kind)


def _is_edge_value(v, bounds):
    """Predicate for the float-edge mechanisms: the value sits within 4 ulp of a reported edge."""
    for lo, hi in bounds:
        for e in (lo, hi):
            if abs(v - e) <= 4 * np.spacing(max(abs(v), abs(e), 1e-300)):
                return True
    return False


def _ppi_sorted_space(slicer, data, masks0):
    """Predicate: the masks are exactly the chunk masks of the *sorted* data applied to unsorted positions."""
    srt = np.sort(data, kind="stable")
    if np.array_equal(srt, data):
        return False
    s0 = copy.copy(slicer)
    s0.min_n_points = 0
    s0.min_n_intervals = 0
    try:
        m2, _, _ = s0.slice_(srt)
    except Exception:  # noqa: BLE001
        return False
    return len(m2) == len(masks0) and all(np.array_equal(a, b) for a, b in zip(m2, masks0))


def _post(call):
    c = M.current()
    if c is None:
        return
    data = call.args[0] if call.args else call.kwargs.get("data")
    judge(c, call.self, data, call.result, call.exc)


_DONE = [False]


def install():
    if _DONE[0]:
        return
    _DONE[0] = True
    from virocon.intervals import IntervalSlicer

    M.wrap(IntervalSlicer, "slice_", post=_post, tag="slicemon")
