"""Monitors and oracles for HighestDensityContour (C02, C15) and the line sorter (C15).

Captured at internal-function boundaries, without editing the repository:
  cumsum_biggest_until(cell_prob, limit) -> (HDR mask, prob_m)     [+ RuntimeWarning]
  HighestDensityContour._compute                                   -> coordinates, fm, cell_center_coordinates
  sort_points_to_form_continuous_line (virocon.contours' binding and virocon.utils')
"""
import itertools
import math
import warnings

import numpy as np

from . import monitors as M
from . import specs as S

OBS = {}
JUDGE_SORTER = [False]  # only C15 judges the sorter; C02 merely records it


def reset():
    OBS.clear()
    OBS["cumsum"] = []
    OBS["sorter"] = []


# ----------------------------------------------------------------------
# capture
# ----------------------------------------------------------------------
def _pre_cumsum(call):
    arr = call.args[0]
    return np.array(arr, dtype=float, copy=True)


def _post_cumsum(call):
    c = M.current()
    if c is None:
        return
    rec = {"cell_prob": call.pre, "limit": float(call.args[1]), "exc": call.exc}
    if call.exc is None:
        rec["mask"] = np.asarray(call.result[0]).astype(bool)
        rec["prob_m"] = float(call.result[1])
    OBS.setdefault("cumsum", []).append(rec)
    c.count("hdc.cumsum-observed")


def _post_sorter(call):
    c = M.current()
    if c is None or call.exc is not None:
        return
    x = np.asarray(call.args[0], float)
    y = np.asarray(call.args[1], float)
    rx, ry = call.result
    rec = {"x": x, "y": y, "rx": np.asarray(rx, float), "ry": np.asarray(ry, float)}
    OBS.setdefault("sorter", []).append(rec)
    if JUDGE_SORTER[0]:
        judge_sorter(c, rec)


def multiset_rows(a):
    a = np.asarray(a, float)
    if a.size == 0:
        return {}
    out = {}
    for row in map(tuple, a.tolist()):
        out[row] = out.get(row, 0) + 1
    return out


def two_nn_components(points):
    """Connected components of the 2-nearest-neighbour graph exactly as the sorter builds it."""
    import networkx as nx
    from sklearn.neighbors import NearestNeighbors

    clf = NearestNeighbors(n_neighbors=2).fit(points)
    G = clf.kneighbors_graph()
    T = nx.from_scipy_sparse_array(G)
    return [sorted(cc) for cc in nx.connected_components(T)]


def sorter_mechanism(inp, out):
    """Predicate of the known finding: the output is exactly the points of ONE connected component of the
    2-nearest-neighbour graph of the input (the depth-first walk never reaches the other components)."""
    try:
        comps = two_nn_components(inp)
    except Exception:  # noqa: BLE001
        return None
    if len(comps) < 2:
        return None
    mo = multiset_rows(out)
    for cc in comps:
        if multiset_rows(inp[cc]) == mo:
            return "sorter-2nn-graph-disconnected-points-dropped"
    return None


def judge_sorter(c, rec):
    inp = np.c_[rec["x"], rec["y"]]
    out = np.c_[rec["rx"], rec["ry"]]
    ok = multiset_rows(inp) == multiset_rows(out)
    mech = None
    if not ok:
        mech = sorter_mechanism(inp, out)
    c.check(
        "c15.sorter-permutation",
        ok,
        "sort_points_to_form_continuous_line did not return a permutation of its input",
        mech,
        n_in=int(inp.shape[0]),
        n_out=int(out.shape[0]),
        head=inp[:6],
    )


_DONE = [False]


def install():
    if _DONE[0]:
        return
    _DONE[0] = True
    import virocon.contours as vc
    import virocon.utils as vu

    M.wrap(vc.HighestDensityContour, "cumsum_biggest_until", pre=_pre_cumsum, post=_post_cumsum, tag="hdc")
    # contours.py binds the sorter with `from ... import`: patch both namespaces.
    # The sorter is a pure function: its postcondition is an icontract.ensure with a NAMED condition that records
    # and returns True (the call form with a lambda turns a violation into a SyntaxError in icontract 2.7.3);
    # if icontract is not installable the plain wrapper is used instead.
    try:
        import icontract

        orig = vu.sort_points_to_form_continuous_line

        def sorter_returns_a_permutation(x, y, result):
            c = M.current()
            if c is not None and M._depth() == 0:
                c.count("icontract.ensure[sorter]")
                rec = {"x": np.asarray(x, float), "y": np.asarray(y, float), "rx": np.asarray(result[0], float), "ry": np.asarray(result[1], float)}
                OBS.setdefault("sorter", []).append(rec)
                if JUDGE_SORTER[0]:
                    with M.quiet():
                        judge_sorter(c, rec)
            return True

        class SorterPostconditionBroken(Exception):
            pass

        vu.sort_points_to_form_continuous_line = icontract.ensure(sorter_returns_a_permutation, error=SorterPostconditionBroken)(orig)
    except Exception:  # noqa: BLE001 - icontract missing: same oracle through the plain wrapper
        M.wrap(vu, "sort_points_to_form_continuous_line", post=_post_sorter, tag="hdc", is_method=False)
    vc.sort_points_to_form_continuous_line = vu.sort_points_to_form_continuous_line
    import virocon

    virocon.sort_points_to_form_continuous_line = vu.sort_points_to_form_continuous_line


# ----------------------------------------------------------------------
# oracles
# ----------------------------------------------------------------------
def reference_cell_prob(spec, centres, deltas):
    """prod_i [F_i(c + d/2 | centre of the conditioning cell) - F_i(c - d/2 | ...)] from the reference cdfs."""
    ref = S.RefModel(spec)
    from . import refmodel as R

    n_dim = len(centres)
    prob = np.ones((1,) * n_dim)
    for i in range(n_dim):
        fam = spec["dims"][i]["fam"]
        x = np.asarray(centres[i], float)
        dx = x[1] - x[0] if x.size > 1 else deltas[i]
        shape = [1] * n_dim
        shape[i] = x.size
        cnd = ref.cond[i]
        if cnd is None:
            p = ref.params_at(i, None)
            with np.errstate(all="ignore"):
                pr = np.asarray(R.cdf(fam, x + 0.5 * dx, **p), float) - np.asarray(R.cdf(fam, x - 0.5 * dx, **p), float)
            pr = pr * (deltas[i] / dx)
            prob = prob * pr.reshape(shape)
        else:
            g = np.asarray(centres[cnd], float)
            pr = np.empty((g.size, x.size))
            for j, gj in enumerate(g):
                with np.errstate(all="ignore"):
                    p = ref.params_at(i, float(gj))
                    pr[j] = np.asarray(R.cdf(fam, x + 0.5 * dx, **p), float) - np.asarray(R.cdf(fam, x - 0.5 * dx, **p), float)
            pr = pr * (deltas[i] / dx)
            shape[cnd] = g.size
            if cnd < i:
                prob = prob * pr.reshape(shape)
            else:
                prob = prob * pr.T.reshape(shape)
    return prob


def boundary_cells(mask):
    """Region cells with at least one of their 3^n-1 neighbours outside the region or outside the grid
    (explicit shifts on a padded array; independent of scipy.ndimage)."""
    mask = np.asarray(mask, bool)
    n = mask.ndim
    pad = np.pad(mask, 1, constant_values=False)
    all_in = np.ones_like(mask)
    core = tuple(slice(1, -1) for _ in range(n))
    for shift in itertools.product((-1, 0, 1), repeat=n):
        if not any(shift):
            continue
        sl = tuple(slice(1 + s, pad.shape[k] - 1 + s) for k, s in enumerate(shift))
        all_in &= pad[sl]
    return mask & ~all_in


def components(mask):
    """3^n-connected components by breadth-first search. Returns a list of index arrays."""
    mask = np.asarray(mask, bool)
    n = mask.ndim
    lab = np.zeros(mask.shape, int)
    shifts = [s for s in itertools.product((-1, 0, 1), repeat=n) if any(s)]
    comps = []
    idxs = np.argwhere(mask)
    for start in map(tuple, idxs):
        if lab[start]:
            continue
        k = len(comps) + 1
        lab[start] = k
        queue = [start]
        members = []
        while queue:
            cur = queue.pop()
            members.append(cur)
            for s in shifts:
                nb = tuple(c + d for c, d in zip(cur, s))
                if all(0 <= nb[q] < mask.shape[q] for q in range(n)) and mask[nb] and not lab[nb]:
                    lab[nb] = k
                    queue.append(nb)
        comps.append(np.array(members))
    return comps
