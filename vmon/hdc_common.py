"""Shared workload and oracles of C02 (HDR content) and C15 (boundary cells)."""
import math
import warnings

import numpy as np

from . import condmon
from . import hdcmon
from . import monitors as M
from . import specs as S

EPS = np.finfo(float).eps


def gen_cases(tier, seed, salt):
    rng = np.random.default_rng([seed, salt])
    cases = []
    n2 = 70 if tier == "quick" else 1500
    n3 = 14 if tier == "quick" else 300
    for k in range(n2 + n3):
        sub = np.random.default_rng(int(rng.integers(1 << 62)))
        three = k >= n2
        structs = S.all_structures(3 if three else 2)
        st = structs[int(sub.integers(len(structs)))]
        spec = S.gen_spec(sub, structure=st, fams=["weibull", "lognormal", "lnnf", "expweib", "gengamma", "normal"], allow_hostile=True)
        alpha = float(10 ** sub.uniform(-6, math.log10(0.3)))
        modes_ = ["explicit", "explicit", "explicit", "too-small", "default-limits" if not three else "explicit", "bimodal" if not three else "explicit", "near-miss" if not three else "too-small", "near-miss" if not three else "explicit", "modes-side-by-side" if not three else "explicit", "four-modes" if not three else "explicit", "tiny-second-region" if not three else "explicit", "default-limits-mass-below-zero" if not three else "explicit", "warning-sequence" if not three else "too-small", "oblique-ridge" if not three else "explicit", "few-cells", "integer-first-axis" if not three else "explicit", "direction-full-circle" if not three else "explicit"]
        _ = sub.choice(modes_)  # (keeps the random stream of the earlier versions)
        mode = str(modes_[(k if not three else k - n2) % len(modes_)])  # every mode in every run, not a random draw
        if mode == "near-miss":
            # the grid misses (or exceeds) 1-alpha by a small multiple of alpha: the warning rule at its edge
            alpha = float(10 ** sub.uniform(-6, -2.5))
            spec = S.gen_spec(sub, structure=[None, 0], fams=["weibull", "lognormal", "lnnf", "expweib", "gengamma"], allow_hostile=False)
        if three:
            ncell = [int(sub.integers(10, 61 if tier == "quick" else 121)) for _ in range(3)]
        else:
            ncell = [int(np.exp(sub.uniform(math.log(10), math.log(400)))) for _ in range(2)]
            if sub.random() < 0.5:  # anisotropy up to 10
                r = float(np.exp(sub.uniform(0, math.log(10))))
                ncell[int(sub.integers(2))] = max(10, int(ncell[0] / r))
        if three and k - n2 < (1 if tier == "quick" else 6):
            # size as an input class: a 3-D grid with more than 2**24 cells (the documented default of 3-D use is larger still)
            mode = "explicit"
            ncell = [int(v) for v in sub.permutation([257, 259 + int(sub.integers(0, 30)), 263 + int(sub.integers(0, 40))])]
            alpha = float(10 ** sub.uniform(-3.5, -1.0))
        cases.append(
            {
                "spec": spec,
                "alpha": alpha,
                "mode": mode,
                "ncell": ncell,
                "delta_form": str(sub.choice(["list", "scalar", "array", "list"])),
                "shortfall": float(sub.choice([-0.5, -0.1, 1e-4, 1e-3, 1e-2, 0.1, 0.5, 1.0, 3.0])),
                "history": bool(sub.random() < 0.3) and mode == "explicit",
                "spec2": S.gen_spec(sub, structure=st, fams=["weibull", "lognormal", "lnnf", "expweib", "gengamma", "normal"], allow_hostile=True) if mode == "explicit" else None,
                "sub": int(sub.integers(1 << 31)),
                "cost": float(np.prod(ncell)) / 2e4 + 0.5,
            }
        )
    return cases


def install():
    condmon.install()
    hdcmon.install()


def _limits(case, ref, rng):
    spec, alpha = case["spec"], case["alpha"]
    d = len(spec["dims"])
    lims = []
    for i in range(d):
        lo, hi = ref.dim_range(i, eps=min(alpha * 1e-2, 1e-4) / d)
        if ref.support_kind(i) == "pos":
            lo = 0.0 if rng.random() < 0.7 else max(0.0, lo)
        if not np.isfinite(hi) or hi - lo <= 0:
            return None
        if case["mode"] == "too-small":
            hi = lo + (hi - lo) * float(rng.uniform(0.25, 0.6))
        lims.append((float(lo), float(hi)))
    return lims


def build_multimodal(rng, kind):
    """Two or four modes that SHARE index ranges: side by side along the second variable (same range of the first),
    or a 2 x 2 arrangement.  The second variable is a user-defined mixture distribution."""
    m0 = {"fam": "normal", "params": {"mu": 5.0, "sigma": float(rng.uniform(1.0, 1.6))}}
    if kind == "four":
        m0 = {"fam": "normalmix", "params": {"w": 0.5, "mu1": 2.0, "mu2": 9.0, "sigma": float(rng.uniform(0.5, 0.8))}}
    m1 = {"fam": "normalmix", "params": {"w": float(rng.uniform(0.35, 0.65)), "mu1": 2.0, "mu2": float(rng.uniform(9.0, 12.0)), "sigma": float(rng.uniform(0.5, 0.9))}}
    return {"dims": [m0, m1]}


def build_bimodal(rng):
    """A 2-D model whose conditional mean switches between two levels (logistic step): two separated modes."""
    x0 = float(rng.uniform(3, 6))
    spec = {
        "dims": [
            {"fam": "normal", "params": {"mu": x0, "sigma": float(rng.uniform(2.0, 3.0))}},
            {
                "fam": "normal",
                "cond": 0,
                "params": {
                    "mu": {"shape": "logistics4", "coef": [2.0, float(rng.uniform(10, 14)), -40.0, x0]},
                    "sigma": float(rng.uniform(0.4, 0.7)),
                },
            },
        ]
    }
    return spec


def run(case, ctx, which):
    from virocon import HighestDensityContour

    rng = np.random.default_rng(case["sub"])
    spec = case["spec"]
    alpha = case["alpha"]
    if case["mode"] == "bimodal":
        spec = build_bimodal(rng)
        alpha = float(rng.uniform(0.05, 0.3))
    if case["mode"] in ("modes-side-by-side", "four-modes"):
        spec = build_multimodal(rng, "four" if case["mode"] == "four-modes" else "two")
        alpha = float(rng.uniform(0.03, 0.2))
    if case["mode"] == "default-limits-mass-below-zero":
        # the documented default grid starts at 0: a variable with mass below zero cannot be captured - a warning is due
        spec = {"dims": [{"fam": "normal", "params": {"mu": float(rng.uniform(0.5, 2.5)), "sigma": 1.0}}, {"fam": "normal", "cond": 0, "params": {"mu": {"shape": "linear2", "coef": [3.0, 0.5]}, "sigma": float(rng.uniform(0.8, 1.5))}}]}
        alpha = float(rng.uniform(0.005, 0.1))
    if case["mode"] == "warning-sequence":
        return run_sequence(case, ctx, which, rng)
    if case["mode"] == "direction-full-circle":
        # a direction (von Mises) whose grid covers the whole circle, with a wave height conditional on it
        spec = {"dims": [{"fam": "vonmises", "params": {"kappa": float(rng.uniform(0.8, 4.0)), "mu": float(rng.uniform(-0.6, 0.6))}}, {"fam": "weibull", "cond": 0, "params": {"alpha": {"shape": "linear2", "coef": [2.5, 0.3]}, "beta": float(rng.uniform(1.5, 2.5)), "gamma": 0.0}}]}
        alpha = float(10 ** rng.uniform(-2.5, -0.7))
    if case["mode"] == "integer-first-axis":
        # limits and cell size of the first variable given as Python ints (whole metres), the second as floats
        spec = {"dims": [{"fam": "weibull", "params": {"alpha": float(rng.uniform(5.0, 8.0)), "beta": float(rng.uniform(1.6, 2.4)), "gamma": 0.0}}, {"fam": "lognormal", "cond": 0, "params": {"mu": {"shape": "power3", "coef": [1.0, 0.2, 0.6]}, "sigma": float(rng.uniform(0.15, 0.3))}}]}
        alpha = float(10 ** rng.uniform(-3, -0.7))
    if case["mode"] == "oblique-ridge":
        # a narrow diagonal ridge resolved by about one cell: region cells that touch only through their corners
        sg = float(rng.uniform(0.12, 0.3))
        spec = {"dims": [{"fam": "normal", "params": {"mu": 5.0, "sigma": float(rng.uniform(1.2, 2.0))}}, {"fam": "normal", "cond": 0, "params": {"mu": {"shape": "linear2", "coef": [float(rng.uniform(0.0, 0.5)), float(rng.uniform(0.7, 1.4))]}, "sigma": sg}}]}
        alpha = float(rng.uniform(0.02, 0.3))
    if case["mode"] == "tiny-second-region":
        # unequal modes; alpha is chosen (second pass, below) so that the weaker mode contributes exactly 1, 2 or 3 cells
        spec = build_multimodal(rng, "two")
        spec["dims"][1]["params"]["w"] = float(rng.uniform(0.8, 0.93))
        alpha = 0.3
    if case["mode"] in ("explicit", "too-small") and int(case["sub"]) % 4 == 1 and not case.get("history"):
        # units as an input class: the same law (and, through the reference ranges, the same grid) in other units
        urng = np.random.default_rng(case["sub"])
        scaled = S.rescale_spec(spec, [float(urng.choice([1e-4, 1e-2, 1e2, 1e4])) for _ in spec["dims"]])
        if scaled is not None:
            spec = scaled
            case = {**case, "spec": scaled}
            ctx.cls("units", "rescaled")
    model = S.build_virocon(spec)
    ref = S.RefModel(spec)
    d = model.n_dim
    ctx.cls("n_dim", d)
    ctx.cls("mode", case["mode"])
    ctx.cls("structure", ref.cond)
    for dd in spec["dims"]:
        ctx.cls("family:" + dd["fam"], True)
    hdcmon.reset()
    hdcmon.JUDGE_SORTER[0] = which == "C15"
    kw = {}
    if case["mode"] == "near-miss":
        # first (unconditional) variable: the top EDGE of the last cell sits at the quantile with exceedance alpha*(1+u),
        # the conditional variable is covered generously - so the grid holds about 1 - alpha*(1+u): shortfall u*alpha
        from . import refmodel as R

        u = case["shortfall"]
        fam0, p0 = spec["dims"][0]["fam"], spec["dims"][0]["params"]
        edge = float(R.isf(fam0, alpha * (1 + u), **p0))
        n0 = max(20, min(case["ncell"][0], 300))
        d0 = edge / (n0 + 0.5)
        lo1, hi1 = ref.dim_range(1, eps=alpha * 1e-7)
        n1 = max(20, min(case["ncell"][1], 300))
        lims = [(0.0, n0 * d0), (0.0, float(hi1))]
        kw["limits"] = lims
        kw["deltas"] = [d0, float(hi1) / n1]
        ctx.cls("shortfall/alpha", u)
    elif case["mode"] not in ("default-limits", "default-limits-mass-below-zero"):
        if case["mode"] == "direction-full-circle":
            lims = [[(-math.pi, math.pi), (0.0, 2 * math.pi)][int(case["sub"]) % 2], (0.0, 14.0)]
            case = {**case, "ncell": [int(rng.integers(40, 90)), int(rng.integers(40, 90))], "delta_form": "list"}
        elif case["mode"] == "integer-first-axis":
            hi1_ = float(ref.dim_range(1, eps=alpha * 1e-3)[1])
            lims = [(0, int(math.ceil(float(ref.dim_range(0, eps=alpha * 1e-3)[1])))), (0.0, hi1_)]
            kw["limits"] = lims
            kw["deltas"] = [1, hi1_ / int(rng.integers(40, 90))]
        elif case["mode"] == "few-cells":
            # ten cells per axis over a range several times the bulk: the region consists of a handful of cells
            m_ = float(rng.choice([3.0, 5.0, 8.0]))
            lims = [(0.0, float(ref.dim_range(i_, eps=1e-3)[1]) * m_) for i_ in range(d)]
            case = {**case, "ncell": [10] * d, "delta_form": "list"}
            alpha = 0.3
        elif case["mode"] == "oblique-ridge":
            lims = [(-2.0, 12.0), (-3.0, 18.0)]
            sg_ = spec["dims"][1]["params"]["sigma"]
            case = {**case, "ncell": [int(14.0 / (sg_ * float(rng.uniform(0.8, 1.6)))), int(21.0 / (sg_ * float(rng.uniform(0.8, 1.6))))], "delta_form": "list"}
        elif case["mode"] in ("modes-side-by-side", "four-modes", "tiny-second-region"):
            lims = [(-3.0, 14.0), (-3.0, 17.0)]
        elif case["mode"] == "bimodal":
            lims = [(-6.0, 16.0), (-2.0, 20.0)]
        else:
            lims = _limits(case, ref, rng)
        if lims is None:
            ctx.inconcl("no finite limits for this spec")
            return
        deltas = [(hi - lo) / n for (lo, hi), n in zip(lims, case["ncell"])]
        form = case["delta_form"] if case["mode"] != "integer-first-axis" else "as-given"
        if form == "scalar":
            dsc = float(np.mean(deltas))
            # keep the number of cells per axis in range
            if max((hi - lo) / dsc for lo, hi in lims) > 450 or min((hi - lo) / dsc for lo, hi in lims) < 8:
                form = "list"
            else:
                kw["deltas"] = dsc
                deltas = [dsc] * d
        if form == "list":
            kw["deltas"] = list(deltas)
        elif form == "array":
            kw["deltas"] = np.array(deltas)
        if form != "as-given":
            kw["limits"] = [tuple(l) if rng.random() < 0.7 else list(l) for l in lims]
    ctx.sig = f"{S.spec_signature(spec)}|{alpha:.4g}|{case['mode']}|{case['ncell']}|{case['delta_form']}"
    with warnings.catch_warnings(record=True) as rec:
        warnings.simplefilter("always")
        with M.quiet():
            pass
        try:
            con = HighestDensityContour(model, alpha, **kw)
        except IndexError as e:
            # grid so coarse that the densest cell alone exceeds 1-alpha: "no result" (DESIGN C02 limits), not judged
            ctx.count("hdc.index-error-coarse-grid")
            ctx.notes["index_error"] = str(e)[:80]
            return
    warned = any(issubclass(w.category, RuntimeWarning) and "1-alpha could not be reached" in str(w.message) for w in rec)
    obs = hdcmon.OBS.get("cumsum", [])
    if not obs:
        ctx.inconcl("cumsum_biggest_until was not observed (reference bound before decoration?)")
        return
    o = obs[-1]
    cell_prob = o["cell_prob"]
    centres = [np.asarray(c_, float) for c_ in con.cell_center_coordinates]
    deltas_used = [float(x) for x in np.asarray(con.deltas, float).ravel()] if np.ndim(con.deltas) else [float(con.deltas)] * d
    ctx.sample = {"signature": S.spec_signature(spec), "alpha": alpha, "mode": case["mode"], "grid": [int(c_.size) for c_ in centres], "deltas": deltas_used, "warned": warned, "fm": float(con.fm)}
    ctx.nontrivial = cell_prob.size >= 100 and any(dd.get("cond") is not None for dd in spec["dims"])
    info = {"alpha": alpha, "grid": [int(c_.size) for c_ in centres], "mode": case["mode"], "spec": spec}
    if which == "C02":
        _c02(ctx, spec, alpha, con, o, cell_prob, centres, deltas_used, warned, info)
    else:
        _c15(ctx, con, o, centres, warned, info, d)
    if case["mode"] == "few-cells":
        # second pass: the alphas (within the documented range) at which the region has exactly 1, 2, 3, 4, 5 cells
        P = np.sort(np.asarray(cell_prob, float).ravel())[::-1]
        for k_ in (1, 2, 3, 4, 5):
            if P[k_] >= P[k_ - 1] or P[k_] <= 0:
                continue
            a2 = 1.0 - (float(np.sum(P[:k_])) + 0.5 * float(P[k_]))
            if not (1e-6 < a2 <= 0.3):
                continue
            hdcmon.reset()
            hdcmon.JUDGE_SORTER[0] = which == "C15"
            with warnings.catch_warnings(record=True) as rec2:
                warnings.simplefilter("always")
                con2 = HighestDensityContour(model, a2, **kw)
            warned2 = any(issubclass(w.category, RuntimeWarning) and "1-alpha could not be reached" in str(w.message) for w in rec2)
            o2 = hdcmon.OBS.get("cumsum", [None])[-1]
            if o2 is None:
                ctx.inconcl("cumsum_biggest_until was not observed in the second pass")
                return
            centres2 = [np.asarray(c_, float) for c_ in con2.cell_center_coordinates]
            info2 = {"alpha": a2, "grid": [int(c_.size) for c_ in centres2], "mode": f"region of {k_} cell(s)", "spec": spec}
            ctx.count(f"hdc.region-of-{k_}-cells")
            if which == "C02":
                _c02(ctx, spec, a2, con2, o2, o2["cell_prob"], centres2, deltas_used, warned2, info2)
            else:
                _c15(ctx, con2, o2, centres2, warned2, info2, d)
    if case["mode"] == "tiny-second-region":
        # second pass: the alpha at which the region consists of the strong mode plus the k densest cells of the weak one
        P = np.asarray(cell_prob, float)
        split = 0.5 * (spec["dims"][1]["params"]["mu1"] + spec["dims"][1]["params"]["mu2"])
        weak = np.broadcast_to(centres[1][None, :] > split, P.shape)
        pw = np.sort(P[weak])[::-1]
        for k_ in (1, 2, 3):
            thr = pw[k_ - 1]
            S_ = float(np.sum(P[P >= thr]))
            below = P[P < thr]
            if below.size == 0 or pw[k_] >= thr:
                continue
            a2 = 1.0 - (S_ + 0.5 * float(np.max(below)))
            if not (1e-6 < a2 < 0.5):
                continue
            hdcmon.reset()
            hdcmon.JUDGE_SORTER[0] = which == "C15"
            with warnings.catch_warnings(record=True) as rec2:
                warnings.simplefilter("always")
                con2 = HighestDensityContour(model, a2, **kw)
            warned2 = any(issubclass(w.category, RuntimeWarning) and "1-alpha could not be reached" in str(w.message) for w in rec2)
            o2 = hdcmon.OBS.get("cumsum", [None])[-1]
            if o2 is None:
                ctx.inconcl("cumsum_biggest_until was not observed in the second pass")
                return
            centres2 = [np.asarray(c_, float) for c_ in con2.cell_center_coordinates]
            info2 = {"alpha": a2, "grid": [int(c_.size) for c_ in centres2], "mode": f"second region of {k_} cell(s)", "spec": spec}
            ctx.cls("weak-region-cells", k_)
            if which == "C02":
                _c02(ctx, spec, a2, con2, o2, o2["cell_prob"], centres2, deltas_used, warned2, info2)
            else:
                _c15(ctx, con2, o2, centres2, warned2, info2, d)
    if case.get("history") and case.get("spec2") is not None and kw:
        # call history: the SAME model object gets other parameters (what a re-fit does) and a contour is computed on
        # the SAME grid (and again with another alpha): it must be the contour of the current parameters
        spec2 = case["spec2"]
        donor = S.build_virocon(spec2)
        for i_ in range(d):
            model.distributions[i_] = donor.distributions[i_]
        ctx.cls("history", "parameters-changed-same-grid")
        for a2 in (alpha, min(0.3, alpha * 3)):
            hdcmon.reset()
            hdcmon.JUDGE_SORTER[0] = which == "C15"
            with warnings.catch_warnings(record=True) as rec2:
                warnings.simplefilter("always")
                try:
                    con2 = HighestDensityContour(model, a2, **kw)
                except IndexError:
                    ctx.count("hdc.index-error-coarse-grid")
                    return
                except ValueError as e:
                    if "Encountered nan in cell averaged" in str(e):
                        # the first model's grid reaches outside the domain of the second model's dependence
                        # functions: virocon refuses with a stated reason - a reported refusal, not judged
                        ctx.count("hdc.history-grid-outside-domain-reported")
                        return
                    raise
            warned2 = any(issubclass(w.category, RuntimeWarning) and "1-alpha could not be reached" in str(w.message) for w in rec2)
            obs2 = hdcmon.OBS.get("cumsum", [])
            if not obs2:
                ctx.inconcl("cumsum_biggest_until was not observed in the history step")
                return
            o2 = obs2[-1]
            centres2 = [np.asarray(c_, float) for c_ in con2.cell_center_coordinates]
            info2 = {"alpha": a2, "grid": [int(c_.size) for c_ in centres2], "mode": "history: same object, other parameters, same grid", "spec": spec2}
            if which == "C02":
                _c02(ctx, spec2, a2, con2, o2, o2["cell_prob"], centres2, deltas_used, warned2, info2)
            else:
                _c15(ctx, con2, o2, centres2, warned2, info2, d)


def run_sequence(case, ctx, which, rng):
    """Several contours inside ONE warnings context (a script with a single `simplefilter("always")`): a contour with the
    default grid first, then one whose explicit grid is too small - the warning of the second must still arrive."""
    from virocon import HighestDensityContour

    spec = S.gen_spec(np.random.default_rng(case["sub"]), structure=[None, 0], fams=["weibull", "lognormal", "expweib"], allow_hostile=False)
    model = S.build_virocon(spec)
    ref = S.RefModel(spec)
    ctx.cls("n_dim", 2)
    ctx.cls("mode", case["mode"])
    ctx.cls("structure", ref.cond)
    ctx.sig = f"{S.spec_signature(spec)}|sequence|{case['sub']}"
    alpha = float(rng.uniform(0.01, 0.1))
    lims = []
    for i in range(2):
        lo, hi = ref.dim_range(i, eps=1e-6)
        lims.append((0.0, float(lo + (hi - lo) * rng.uniform(0.25, 0.5))))
    deltas = [(hi - lo) / 40 for lo, hi in lims]
    hdcmon.reset()
    hdcmon.JUDGE_SORTER[0] = which == "C15"
    with warnings.catch_warnings(record=True) as rec:
        warnings.simplefilter("always")
        try:
            HighestDensityContour(model, alpha)  # default limits and deltas
            n_before = len(rec)
            hdcmon.reset()
            hdcmon.JUDGE_SORTER[0] = which == "C15"
            con = HighestDensityContour(model, alpha, limits=lims, deltas=deltas)
        except IndexError:
            ctx.count("hdc.index-error-coarse-grid")
            return
        second = list(rec)[n_before:]
    warned = any(issubclass(w.category, RuntimeWarning) and "1-alpha could not be reached" in str(w.message) for w in second)
    obs = hdcmon.OBS.get("cumsum", [])
    if not obs:
        ctx.inconcl("cumsum_biggest_until was not observed (sequence)")
        return
    o = obs[-1]
    centres = [np.asarray(c_, float) for c_ in con.cell_center_coordinates]
    info = {"alpha": alpha, "grid": [int(c_.size) for c_ in centres], "mode": "second contour in one warnings context, after a default-grid contour", "spec": spec}
    ctx.nontrivial = True
    ctx.sample = {"signature": S.spec_signature(spec), "alpha": alpha, "mode": case["mode"], "warned": warned}
    if which == "C02":
        _c02(ctx, spec, alpha, con, o, o["cell_prob"], centres, [float(x) for x in deltas], warned, info)
    else:
        _c15(ctx, con, o, centres, warned, info, 2)


# ----------------------------------------------------------------------
def _c02(ctx, spec, alpha, con, o, cell_prob, centres, deltas, warned, info):
    N = cell_prob.size
    target = 1 - alpha
    # (a) cell probabilities are the documented cdf differences
    want = hdcmon.reference_cell_prob(spec, centres, deltas)
    try:
        want_b = np.broadcast_to(want, cell_prob.shape)
    except ValueError:
        ctx.check("c02.cell-prob-shape", False, "cell probability array has an unexpected shape", got=list(cell_prob.shape), want=list(want.shape), **info)
        return
    err = np.abs(cell_prob - want_b)
    tol = 1e-9 * np.abs(want_b) + 4e-15
    bad = err > tol
    j = np.unravel_index(int(np.argmax(err - tol)), cell_prob.shape)
    ctx.check(
        "c02.cell-prob",
        not bool(np.any(bad)),
        "cell probabilities are not the documented cdf differences of the (conditional) distributions",
        n_bad=int(bad.sum()),
        index=list(map(int, j)),
        got=float(cell_prob[j]),
        want=float(want_b[j]),
        centre=[float(centres[k][j[k]]) for k in range(len(centres))],
        **info,
    )
    total = math.fsum(cell_prob.ravel().tolist())
    slack = 8 * N * EPS
    # (e) warning <=> the grid cannot capture 1 - alpha
    if abs(total - target) <= slack:
        ctx.inconcl("grid content within rounding of 1-alpha: warning rule not judged")
    else:
        ctx.check("c02.warning-iff-grid-too-small", warned == (total < target), "RuntimeWarning does not correspond to 'grid content < 1-alpha'", total=total, target=target, warned=warned, **info)
    if warned or o.get("exc") is not None:
        ctx.count("c02.warning-path")
        return
    mask = o["mask"]
    prob_m = o["prob_m"]
    inside = cell_prob[mask]
    outside = cell_prob[~mask]
    # (b) prefix of the descending order, up to ties at the threshold
    okp = (inside.size > 0) and (outside.size == 0 or float(outside.max()) <= float(inside.min()))
    ctx.check("c02.inside-denser-than-outside", okp, "an excluded cell is denser than an enclosed cell", min_inside=float(inside.min()) if inside.size else None, max_outside=float(outside.max()) if outside.size else None, **info)
    ctx.check("c02.threshold-is-least-enclosed", inside.size > 0 and prob_m == float(inside.min()), "the reported last-added cell is not the least dense enclosed cell", prob_m=prob_m, min_inside=float(inside.min()) if inside.size else None, **info)
    # (c) content
    content = math.fsum(inside.tolist())
    ctx.check("c02.content-at-most", content <= target + slack, "enclosed probability exceeds 1-alpha", content=content, target=target, **info)
    densest_out = float(outside.max()) if outside.size else 0.0
    if outside.size:
        ctx.check("c02.content-misses-by-less-than-next-cell", (target - content) < densest_out + slack, "enclosed probability misses 1-alpha by at least the densest excluded cell", content=content, target=target, densest_excluded=densest_out, **info)
    # (d) fm
    vol = float(np.prod(deltas))
    fm_want = prob_m / vol
    ctx.check("c02.fm", abs(con.fm - fm_want) <= 1e-12 * abs(fm_want), "fm is not the density of the least dense enclosed cell", fm=float(con.fm), want=fm_want, **info)
    # (f) the region is recomputable from the public attributes (fm, cell centres) with the reference densities
    dens = want_b / vol
    fm = float(con.fm)
    sure_in = dens > fm * (1 + 1e-8)
    sure_out = dens < fm * (1 - 1e-8)
    ctx.check(
        "c02.region-from-public-fm",
        not bool(np.any(sure_in & ~mask)) and not bool(np.any(sure_out & mask)),
        "the cells with reference density >= fm are not the enclosed region",
        wrongly_excluded=int(np.sum(sure_in & ~mask)),
        wrongly_included=int(np.sum(sure_out & mask)),
        **info,
    )


# ----------------------------------------------------------------------
def _c15(ctx, con, o, centres, warned, info, d):
    if warned or o.get("exc") is not None:
        mask = np.ones(o["cell_prob"].shape, bool)
    else:
        mask = o["mask"]
    bnd = hdcmon.boundary_cells(mask)
    comps = hdcmon.components(bnd)
    region_comps = hdcmon.components(mask) if mask.size <= 200000 else None
    coords = con.coordinates
    want_all = np.argwhere(bnd)
    want_pts = np.stack([centres[k][want_all[:, k]] for k in range(d)], axis=1) if want_all.size else np.zeros((0, d))
    single = len(comps) == 1
    ctx.cls("n_boundary_components", len(comps))
    if isinstance(coords, np.ndarray) and coords.dtype != object and coords.ndim == 2:
        got_sets = [coords]
        ctx.check("c15.single-array-iff-single-region", single, "one (N, n_dim) array returned although the boundary has several components", n_components=len(comps), **info)
    else:
        got_sets = [np.array(part, float).T for part in coords]
        ctx.check("c15.single-array-iff-single-region", not single, "a list of coordinate sets returned although the region has a single boundary component", n_sets=len(got_sets), **info)
    got_all = np.vstack(got_sets) if got_sets else np.zeros((0, d))
    ms_want = hdcmon.multiset_rows(want_pts)
    ms_got = hdcmon.multiset_rows(got_all)
    dup = [k for k, v in ms_got.items() if v > 1]
    ok = ms_want == ms_got
    mech = None
    if not ok and d == 2 and single and not dup and all(k in ms_want for k in ms_got):
        # predicate of the sorter finding: the returned set is one component of the 2-NN graph of the boundary cells
        srt = hdcmon.OBS.get("sorter", [])
        if srt:
            s_ = srt[-1]
            inp = np.c_[s_["x"], s_["y"]]
            if hdcmon.multiset_rows(inp) == ms_want:
                mech = hdcmon.sorter_mechanism(inp, got_all)
    ctx.check(
        "c15.coordinates-are-boundary-cells",
        ok,
        "returned coordinates are not exactly the centres of the boundary cells of the enclosed region (each once)",
        mech,
        n_boundary_cells=int(want_pts.shape[0]),
        n_returned=int(got_all.shape[0]),
        duplicates=len(dup),
        not_boundary=int(sum(1 for k in ms_got if k not in ms_want)),
        **info,
    )
    ctx.check("c15.no-duplicates", not dup, "a boundary cell is returned more than once", example=list(dup[0]) if dup else None, **info)
    # one coordinate set per component
    if not single:
        if region_comps is not None and len(region_comps) != len(comps):
            ctx.count("c15.region-with-hole-not-judged")
        else:
            want_sets = sorted((hdcmon.multiset_rows(np.stack([centres[k][cc[:, k]] for k in range(d)], axis=1)) for cc in comps), key=lambda m: sorted(m)[0])
            have_sets = sorted((hdcmon.multiset_rows(g) for g in got_sets), key=lambda m: sorted(m)[0])
            ctx.check("c15.one-set-per-region", want_sets == have_sets, "disconnected regions are not returned as one coordinate set per region", n_regions=len(comps), n_sets=len(got_sets), **info)
    ctx.count("c15.boundary-cells", int(want_pts.shape[0]))


# ----------------------------------------------------------------------
# the point sorter on arbitrary planar point sets (C15, second half)
# ----------------------------------------------------------------------
def sorter_cases(tier, seed):
    rng = np.random.default_rng([seed, 150])
    n = 60 if tier == "quick" else 1500
    kinds = ["circle", "ellipse-aniso", "irregular", "clustered", "collinear", "duplicates", "grid-ring", "two-rings"]
    return [{"kind": "sorter", "pts": kinds[i % len(kinds)], "n": int(rng.choice([1, 2, 3, 5, 10, 40, 150, 400])), "sub": int(rng.integers(1 << 31)), "opt": bool(i % 2)} for i in range(n)]


def run_sorter(case, ctx):
    from virocon.utils import sort_points_to_form_continuous_line as sorter

    rng = np.random.default_rng(case["sub"])
    n, k = case["n"], case["pts"]
    t = np.sort(rng.uniform(0, 2 * np.pi, n)) if k in ("irregular",) else np.linspace(0, 2 * np.pi, n, endpoint=False)
    if k == "circle":
        x, y = np.cos(t), np.sin(t)
    elif k == "ellipse-aniso":
        x, y = 10 * np.cos(t), 0.7 * np.sin(t)
    elif k == "irregular":
        x, y = (1 + 0.3 * np.sin(3 * t)) * np.cos(t), (1 + 0.3 * np.sin(3 * t)) * np.sin(t)
    elif k == "clustered":
        c = rng.integers(0, 3, n)
        x, y = c * 5 + rng.normal(0, 0.2, n), rng.normal(0, 0.2, n)
    elif k == "collinear":
        x, y = np.sort(rng.uniform(0, 10, n)), np.zeros(n)
    elif k == "duplicates":
        x, y = np.round(np.cos(t), 1), np.round(np.sin(t), 1)
    elif k == "grid-ring":
        g = np.arange(0, max(3, int(np.sqrt(n))) + 1)
        pts = [(a, b) for a in g for b in g if a in (g[0], g[-1]) or b in (g[0], g[-1])]
        x, y = np.array([p[0] for p in pts], float) * 1.0, np.array([p[1] for p in pts], float) * 0.1
    else:
        x = np.r_[np.cos(t), 5 + np.cos(t)]
        y = np.r_[np.sin(t), np.sin(t)]
    perm = rng.permutation(x.size)
    x, y = x[perm], y[perm]
    ctx.cls("sorter-input", k)
    ctx.sig = f"sorter|{k}|{n}|{case['sub']}|{case['opt']}"
    ctx.nontrivial = x.size >= 5
    ctx.sample = {"kind": "sorter", "points": k, "n": int(x.size), "search_for_optimal_start": case["opt"], "head": np.c_[x, y][:4].tolist()}
    hdcmon.reset()
    hdcmon.JUDGE_SORTER[0] = True
    sorter(x, y, search_for_optimal_start=case["opt"])
