"""Distribution-free bounds used by the statistical oracles (DESIGN 4, C07/C16)."""
import math

import numpy as np

DELTA = 1e-12  # error probability per comparison


def dkw_eps(n, delta=DELTA):
    """Two-sided DKW(-Massart): P(sup |F_n - F| > eps) <= 2 exp(-2 n eps^2)."""
    return math.sqrt(math.log(2.0 / delta) / (2.0 * n))


def naaman_eps(n, d, delta=DELTA):
    """Multivariate DKW (Naaman 2021): P(sup |F_n - F| > eps) <= d (n+1) exp(-2 n eps^2)."""
    return math.sqrt(math.log(d * (n + 1) / delta) / (2.0 * n))


def ks_distance(sample, cdf):
    """sup |F_n - F| for a continuous F given as a callable on sorted data."""
    x = np.sort(np.asarray(sample, float))
    n = x.size
    # representability: a sampled value is only known to +-2 ulp (a density that is singular at a non-zero
    # location puts visible mass into one double); the cdf is evaluated at the favourable end of that interval
    step = 2 * np.spacing(np.abs(x))
    Fu = np.asarray(cdf(x + step), float)
    Fl = np.asarray(cdf(x - step), float)
    i = np.arange(1, n + 1)
    return float(max(np.max(i / n - Fu), np.max(Fl - (i - 1) / n)))


def ks_distance_u(u):
    """sup |F_n - U(0,1)| for values in [0,1]."""
    x = np.sort(np.asarray(u, float))
    n = x.size
    i = np.arange(1, n + 1)
    return float(max(np.max(i / n - x), np.max(x - (i - 1) / n)))


def joint_ecdf_gap(P, m=1500, rng=None):
    """Lower bound of sup |F_n(p) - prod(p)| for points P in [0,1]^d that should be iid uniform
    (evaluated at m of the sample points and at a few lattice points)."""
    P = np.asarray(P, float)
    n, d = P.shape
    rng = rng or np.random.default_rng(0)
    idx = rng.choice(n, size=min(m, n), replace=False)
    ev = P[idx]
    lattice = np.array(np.meshgrid(*[[0.25, 0.5, 0.75]] * d)).reshape(d, -1).T
    ev = np.vstack([ev, lattice])
    worst = 0.0
    at = None
    # chunked to bound memory
    for s in range(0, ev.shape[0], 64):
        e = ev[s : s + 64]
        le = np.all(P[None, :, :] <= e[:, None, :], axis=2)
        emp = le.mean(axis=1)
        th = np.prod(e, axis=1)
        g = np.abs(emp - th)
        j = int(np.argmax(g))
        if g[j] > worst:
            worst, at = float(g[j]), e[j].tolist()
    return worst, at
