"""Independent executable reference model (DESIGN 2.2).

Written from the *documented* formulas of each family, with numpy and
scipy.special primitives only - never scipy.stats through virocon's parameter
mapping.  All functions broadcast over x and over (array) parameters.

Families and documented parametrisation
  weibull(alpha, beta, gamma)      F = 1 - exp(-((x-gamma)/alpha)^beta)
  lognormal(mu, sigma)             F = Phi((ln x - mu)/sigma)
  normal(mu, sigma)                F = Phi((x-mu)/sigma)
  lnnf(mu_norm, sigma_norm)        lognormal with mean mu_norm and std sigma_norm
  expweib(alpha, beta, delta)      F = [1 - exp(-(x/alpha)^beta)]^delta
  gengamma(m, c, lambda_)          F = P(m, (lambda x)^c)
  vonmises(kappa, mu)              f = exp(kappa cos(x-mu)) / (2 pi I0(kappa)) on [mu-pi, mu+pi]
  gamma(a, loc, scale), rayleigh(loc, scale), gumbel_r(loc, scale), sc_gengamma(a, c, loc, scale)
                                   (ScipyDistribution subclasses; sc_gengamma: F = P(a, ((x-loc)/scale)^c), two shapes)
"""
import math

import numpy as np
from scipy import special as sp

SQRT2PI = math.sqrt(2.0 * math.pi)

PARAMS = {
    "weibull": ["alpha", "beta", "gamma"],
    "lognormal": ["mu", "sigma"],
    "normal": ["mu", "sigma"],
    "lnnf": ["mu_norm", "sigma_norm"],
    "expweib": ["alpha", "beta", "delta"],
    "gengamma": ["m", "c", "lambda_"],
    "vonmises": ["kappa", "mu"],
    "gamma": ["a", "loc", "scale"],
    "rayleigh": ["loc", "scale"],
    "gumbel_r": ["loc", "scale"],
    "sc_gengamma": ["a", "c", "loc", "scale"],
    "normalmix": ["w", "mu1", "mu2", "sigma"],
}

DEFAULTS = {
    "weibull": {"alpha": 1, "beta": 1, "gamma": 0},
    "lognormal": {"mu": 0, "sigma": 1},
    "normal": {"mu": 0, "sigma": 1},
    "lnnf": {"mu_norm": 0, "sigma_norm": 1},
    "expweib": {"alpha": 1, "beta": 1, "delta": 1},
    "gengamma": {"m": 1, "c": 1, "lambda_": 1},
    "vonmises": {"kappa": 1, "mu": 0},
    "gamma": {"a": 1, "loc": 0, "scale": 1},
    "rayleigh": {"loc": 0, "scale": 1},
    "gumbel_r": {"loc": 0, "scale": 1},
    "sc_gengamma": {"a": 1, "c": 1, "loc": 0, "scale": 1},
    "normalmix": {"w": 0.5, "mu1": 0, "mu2": 5, "sigma": 1},
}

# support: ("pos") = (lower, inf) with lower >= 0 ; "real"
SUPPORT = {
    "weibull": "pos",
    "lognormal": "pos",
    "normal": "real",
    "lnnf": "pos",
    "expweib": "pos",
    "gengamma": "pos",
    "vonmises": "real",
    "gamma": "pos",
    "rayleigh": "pos",
    "gumbel_r": "real",
    "sc_gengamma": "pos",
    "normalmix": "real",
}


def _f(a):
    return np.asarray(a, dtype=float)


def _lnnf_to_ln(m, s):
    m, s = _f(m), _f(s)
    sig2 = np.log1p((s / m) ** 2)
    return np.log(m) - 0.5 * sig2, np.sqrt(sig2)


def _log1mexp(a):
    """log(1 - exp(-a)) for a > 0, accurate for small and for large a."""
    a = _f(a)
    with np.errstate(all="ignore"):
        return np.where(a > 0.6931471805599453, np.log1p(-np.exp(-a)), np.log(-np.expm1(-a)))


# ----------------------------------------------------------------------
# von Mises helpers (series, independent of scipy.stats.vonmises)
# ----------------------------------------------------------------------
def _vm_cdf_centered(t, kappa):
    """cdf of the von Mises(kappa, 0) on [-pi, pi] by its Fourier series."""
    t = _f(t)
    kappa = _f(kappa)
    t, kappa = np.broadcast_arrays(t, kappa)
    out = np.empty(t.shape, dtype=float)
    flat_t = t.ravel()
    flat_k = kappa.ravel()
    res = np.empty(flat_t.shape)
    # group by kappa value for efficiency
    uniq = np.unique(flat_k)
    for k in uniq:
        m = flat_k == k
        tt = flat_t[m]
        if k > 400:
            # far outside the workload; asymptotic normal with variance 1/k is not exact -> quadrature
            res[m] = [_vm_cdf_quad(x, k) for x in tt]
            continue
        i0 = sp.ive(0, k)
        s = np.zeros_like(tt)
        j = 1
        while j < 5000:
            r = sp.ive(j, k) / i0
            s += r * np.sin(j * tt) / j
            if r / j < 1e-19:
                break
            j += 1
        res[m] = 0.5 + tt / (2 * math.pi) + s / math.pi
    out = res.reshape(t.shape)
    return out


def _vm_cdf_quad(x, k):
    from scipy.integrate import quad

    f = lambda u: math.exp(k * (math.cos(u) - 1.0)) / (2 * math.pi * sp.ive(0, k))
    v, _ = quad(f, -math.pi, x, epsabs=1e-14, epsrel=1e-13, limit=400, points=[0.0] if x > 0 else None)
    return v




def _scgg(p):
    return {"m": p["a"], "c": p["c"], "lambda_": 1.0 / _f(p["scale"])}

# ----------------------------------------------------------------------
# family functions
# ----------------------------------------------------------------------
def cdf(fam, x, **p):
    if fam == "normalmix":
        w = _f(p["w"])
        return w * cdf("normal", x, mu=p["mu1"], sigma=p["sigma"]) + (1 - w) * cdf("normal", x, mu=p["mu2"], sigma=p["sigma"])
    if fam == "sc_gengamma":
        return cdf("gengamma", _f(x) - _f(p["loc"]), **_scgg(p))
    x = _f(x)
    with np.errstate(all="ignore"):
        if fam == "weibull":
            z = (x - _f(p["gamma"])) / _f(p["alpha"])
            zz = np.where(z > 0, z, 0.0)
            return np.where(z > 0, -np.expm1(-(zz ** _f(p["beta"]))), 0.0)
        if fam == "lognormal":
            xx = np.where(x > 0, x, 1.0)
            return np.where(x > 0, sp.ndtr((np.log(xx) - _f(p["mu"])) / _f(p["sigma"])), 0.0)
        if fam == "normal":
            return sp.ndtr((x - _f(p["mu"])) / _f(p["sigma"]))
        if fam == "lnnf":
            mu, sig = _lnnf_to_ln(p["mu_norm"], p["sigma_norm"])
            return cdf("lognormal", x, mu=mu, sigma=sig)
        if fam == "expweib":
            z = x / _f(p["alpha"])
            zz = np.where(z > 0, z, 1.0)
            return np.where(z > 0, np.exp(_f(p["delta"]) * _log1mexp(zz ** _f(p["beta"]))), 0.0)
        if fam == "gengamma":
            z = x * _f(p["lambda_"])
            zz = np.where(z > 0, z, 1.0)
            return np.where(z > 0, sp.gammainc(_f(p["m"]), zz ** _f(p["c"])), 0.0)
        if fam == "vonmises":
            # the documented (scipy) convention: beyond mu +- pi the cdf continues periodically, F(x + 2 pi) = F(x) + 1
            t = x - _f(p["mu"])
            k = np.floor((t + math.pi) / (2 * math.pi))
            return k + _vm_cdf_centered(t - 2 * math.pi * k, p["kappa"])
        if fam == "gamma":
            z = (x - _f(p["loc"])) / _f(p["scale"])
            zz = np.where(z > 0, z, 1.0)
            return np.where(z > 0, sp.gammainc(_f(p["a"]), zz), 0.0)
        if fam == "rayleigh":
            z = (x - _f(p["loc"])) / _f(p["scale"])
            zz = np.where(z > 0, z, 0.0)
            return -np.expm1(-0.5 * zz * zz)
        if fam == "gumbel_r":
            z = (x - _f(p["loc"])) / _f(p["scale"])
            return np.exp(-np.exp(-z))
    raise KeyError(fam)


def sf(fam, x, **p):
    if fam == "normalmix":
        w = _f(p["w"])
        return w * sf("normal", x, mu=p["mu1"], sigma=p["sigma"]) + (1 - w) * sf("normal", x, mu=p["mu2"], sigma=p["sigma"])
    if fam == "sc_gengamma":
        return sf("gengamma", _f(x) - _f(p["loc"]), **_scgg(p))
    """Survival function, accurate in the upper tail."""
    x = _f(x)
    with np.errstate(all="ignore"):
        if fam == "weibull":
            z = (x - _f(p["gamma"])) / _f(p["alpha"])
            zz = np.where(z > 0, z, 0.0)
            return np.where(z > 0, np.exp(-(zz ** _f(p["beta"]))), 1.0)
        if fam == "lognormal":
            xx = np.where(x > 0, x, 1.0)
            return np.where(x > 0, sp.ndtr(-(np.log(xx) - _f(p["mu"])) / _f(p["sigma"])), 1.0)
        if fam == "normal":
            return sp.ndtr(-(x - _f(p["mu"])) / _f(p["sigma"]))
        if fam == "lnnf":
            mu, sig = _lnnf_to_ln(p["mu_norm"], p["sigma_norm"])
            return sf("lognormal", x, mu=mu, sigma=sig)
        if fam == "expweib":
            z = x / _f(p["alpha"])
            zz = np.where(z > 0, z, 1.0)
            return np.where(z > 0, -np.expm1(_f(p["delta"]) * _log1mexp(zz ** _f(p["beta"]))), 1.0)
        if fam == "gengamma":
            z = x * _f(p["lambda_"])
            zz = np.where(z > 0, z, 1.0)
            return np.where(z > 0, sp.gammaincc(_f(p["m"]), zz ** _f(p["c"])), 1.0)
        if fam == "gamma":
            z = (x - _f(p["loc"])) / _f(p["scale"])
            zz = np.where(z > 0, z, 1.0)
            return np.where(z > 0, sp.gammaincc(_f(p["a"]), zz), 1.0)
        if fam == "rayleigh":
            z = (x - _f(p["loc"])) / _f(p["scale"])
            zz = np.where(z > 0, z, 0.0)
            return np.exp(-0.5 * zz * zz)
        if fam == "gumbel_r":
            z = (x - _f(p["loc"])) / _f(p["scale"])
            return -np.expm1(-np.exp(-z))
        if fam == "vonmises":
            return 1.0 - cdf(fam, x, **p)
    raise KeyError(fam)


def pdf(fam, x, **p):
    if fam == "normalmix":
        w = _f(p["w"])
        return w * pdf("normal", x, mu=p["mu1"], sigma=p["sigma"]) + (1 - w) * pdf("normal", x, mu=p["mu2"], sigma=p["sigma"])
    if fam == "sc_gengamma":
        return pdf("gengamma", _f(x) - _f(p["loc"]), **_scgg(p))
    x = _f(x)
    with np.errstate(all="ignore"):
        if fam == "weibull":
            a, b, g = _f(p["alpha"]), _f(p["beta"]), _f(p["gamma"])
            z = (x - g) / a
            zz = np.where(z > 0, z, 1.0)
            val = b / a * zz ** (b - 1) * np.exp(-(zz**b))
            at0 = np.where(b == 1, 1.0 / a, np.where(b > 1, 0.0, np.inf))
            return np.where(z > 0, val, np.where(z == 0, at0, 0.0))
        if fam == "lognormal":
            mu, s = _f(p["mu"]), _f(p["sigma"])
            xx = np.where(x > 0, x, 1.0)
            val = np.exp(-((np.log(xx) - mu) ** 2) / (2 * s * s)) / (xx * s * SQRT2PI)
            return np.where(x > 0, val, 0.0)
        if fam == "normal":
            mu, s = _f(p["mu"]), _f(p["sigma"])
            return np.exp(-((x - mu) ** 2) / (2 * s * s)) / (s * SQRT2PI)
        if fam == "lnnf":
            mu, sig = _lnnf_to_ln(p["mu_norm"], p["sigma_norm"])
            return pdf("lognormal", x, mu=mu, sigma=sig)
        if fam == "expweib":
            a, b, d = _f(p["alpha"]), _f(p["beta"]), _f(p["delta"])
            z = x / a
            zz = np.where(z > 0, z, 1.0)
            zb = zz**b
            # (in log space: the product of a huge power z**(beta-1) and an underflowing (1-exp(-z**beta))**(delta-1) is a
            #  perfectly ordinary number - 2.3e-128 at x = 4e-285 - that the factor-by-factor product loses to 0)
            with np.errstate(all="ignore"):
                val = np.exp(np.log(d * b / a) + (b - 1) * np.log(zz) - zb + (d - 1) * _log1mexp(zb))
            # at x = 0 the formula is singular for beta*delta < 1 (virocon deliberately returns 0 there): not judged
            at0 = np.where(b * d > 1, 0.0, np.nan)
            return np.where(z > 0, val, np.where(z == 0, at0, 0.0))
        if fam == "gengamma":
            m, c, lam = _f(p["m"]), _f(p["c"]), _f(p["lambda_"])
            z = x * lam
            zz = np.where(z > 0, z, 1.0)
            logv = np.log(c) + np.log(lam) + (c * m - 1) * np.log(zz) - zz**c - sp.gammaln(m)
            at0 = np.where(c * m < 1, np.inf, np.where(c * m == 1, c * lam / sp.gamma(m), 0.0))
            return np.where(z > 0, np.exp(logv), np.where(z == 0, at0, 0.0))
        if fam == "vonmises":
            k, mu = _f(p["kappa"]), _f(p["mu"])
            return np.exp(k * (np.cos(x - mu) - 1.0)) / (2 * math.pi * sp.ive(0, k))
        if fam == "gamma":
            a, loc, sc = _f(p["a"]), _f(p["loc"]), _f(p["scale"])
            z = (x - loc) / sc
            zz = np.where(z > 0, z, 1.0)
            logv = (a - 1) * np.log(zz) - zz - sp.gammaln(a) - np.log(sc)
            at0 = np.where(a < 1, np.inf, np.where(a == 1, 1.0 / sc, 0.0))
            return np.where(z > 0, np.exp(logv), np.where(z == 0, at0, 0.0))
        if fam == "rayleigh":
            loc, sc = _f(p["loc"]), _f(p["scale"])
            z = (x - loc) / sc
            zz = np.where(z > 0, z, 0.0)
            return np.where(z > 0, zz * np.exp(-0.5 * zz * zz) / sc, 0.0)
        if fam == "gumbel_r":
            loc, sc = _f(p["loc"]), _f(p["scale"])
            z = (x - loc) / sc
            return np.exp(-z - np.exp(-z)) / sc
    raise KeyError(fam)


def logpdf(fam, x, **p):
    if fam == "sc_gengamma":
        return logpdf("gengamma", _f(x) - _f(p["loc"]), **_scgg(p))
    x = _f(x)
    with np.errstate(all="ignore"):
        if fam == "weibull":
            a, b, g = _f(p["alpha"]), _f(p["beta"]), _f(p["gamma"])
            z = (x - g) / a
            zz = np.where(z > 0, z, 1.0)
            val = np.log(b / a) + (b - 1) * np.log(zz) - zz**b
            return np.where(z > 0, val, -np.inf)
        if fam == "lognormal":
            mu, s = _f(p["mu"]), _f(p["sigma"])
            xx = np.where(x > 0, x, 1.0)
            val = -((np.log(xx) - mu) ** 2) / (2 * s * s) - np.log(xx * s * SQRT2PI)
            return np.where(x > 0, val, -np.inf)
        if fam == "normal":
            mu, s = _f(p["mu"]), _f(p["sigma"])
            return -((x - mu) ** 2) / (2 * s * s) - np.log(s * SQRT2PI)
        if fam == "lnnf":
            mu, sig = _lnnf_to_ln(p["mu_norm"], p["sigma_norm"])
            return logpdf("lognormal", x, mu=mu, sigma=sig)
        if fam == "expweib":
            a, b, d = _f(p["alpha"]), _f(p["beta"]), _f(p["delta"])
            z = x / a
            zz = np.where(z > 0, z, 1.0)
            zb = zz**b
            val = np.log(d * b / a) + (b - 1) * np.log(zz) - zb + (d - 1) * _log1mexp(zb)
            return np.where(z > 0, val, -np.inf)
        if fam == "gengamma":
            m, c, lam = _f(p["m"]), _f(p["c"]), _f(p["lambda_"])
            z = x * lam
            zz = np.where(z > 0, z, 1.0)
            val = np.log(c) + np.log(lam) + (c * m - 1) * np.log(zz) - zz**c - sp.gammaln(m)
            return np.where(z > 0, val, -np.inf)
        if fam == "vonmises":
            k, mu = _f(p["kappa"]), _f(p["mu"])
            return k * (np.cos(x - mu) - 1.0) - np.log(2 * math.pi * sp.ive(0, k))
    return np.log(pdf(fam, x, **p))


def icdf(fam, q, **p):
    if fam == "normalmix":
        from scipy.optimize import brentq

        q = _f(q)
        lo = min(p["mu1"], p["mu2"]) - 40 * p["sigma"]
        hi = max(p["mu1"], p["mu2"]) + 40 * p["sigma"]
        return np.vectorize(lambda qq: brentq(lambda t: float(cdf("normalmix", t, **p)) - qq, lo, hi, xtol=1e-13) if 0 < qq < 1 else (lo if qq <= 0 else hi))(q)
    if fam == "sc_gengamma":
        return _f(p["loc"]) + icdf("gengamma", q, **_scgg(p))
    q = _f(q)
    with np.errstate(all="ignore"):
        if fam == "weibull":
            return _f(p["gamma"]) + _f(p["alpha"]) * (-np.log1p(-q)) ** (1.0 / _f(p["beta"]))
        if fam == "lognormal":
            return np.exp(_f(p["mu"]) + _f(p["sigma"]) * sp.ndtri(q))
        if fam == "normal":
            return _f(p["mu"]) + _f(p["sigma"]) * sp.ndtri(q)
        if fam == "lnnf":
            mu, sig = _lnnf_to_ln(p["mu_norm"], p["sigma_norm"])
            return np.exp(mu + sig * sp.ndtri(q))
        if fam == "expweib":
            d = _f(p["delta"])
            return _f(p["alpha"]) * (-np.log1p(-(q ** (1.0 / d)))) ** (1.0 / _f(p["beta"]))
        if fam == "gengamma":
            return sp.gammaincinv(_f(p["m"]), q) ** (1.0 / _f(p["c"])) / _f(p["lambda_"])
        if fam == "gamma":
            return _f(p["loc"]) + _f(p["scale"]) * sp.gammaincinv(_f(p["a"]), q)
        if fam == "rayleigh":
            return _f(p["loc"]) + _f(p["scale"]) * np.sqrt(-2 * np.log1p(-q))
        if fam == "gumbel_r":
            return _f(p["loc"]) - _f(p["scale"]) * np.log(-np.log(q))
        if fam == "vonmises":
            return _vm_icdf(q, p["kappa"], p["mu"])
    raise KeyError(fam)


def _vm_icdf(q, kappa, mu):
    q, kappa, mu = np.broadcast_arrays(_f(q), _f(kappa), _f(mu))
    out = np.empty(q.shape)
    it = np.nditer([q, kappa, mu, out], op_flags=[["readonly"], ["readonly"], ["readonly"], ["writeonly"]])
    from scipy.optimize import brentq

    for qq, kk, mm, oo in it:
        qq, kk, mm = float(qq), float(kk), float(mm)
        if not (0 < qq < 1):
            oo[...] = mm - math.pi if qq <= 0 else mm + math.pi
            continue
        g = lambda t: float(_vm_cdf_centered(t, kk)) - qq
        oo[...] = mm + brentq(g, -math.pi, math.pi, xtol=1e-14, rtol=1e-14)
    return out


def isf(fam, s, **p):
    """Inverse survival function (upper tail without cancellation)."""
    if fam == "sc_gengamma":
        return _f(p["loc"]) + isf("gengamma", s, **_scgg(p))
    if fam == "normalmix":
        return icdf(fam, 1.0 - _f(s), **p)
    s = _f(s)
    with np.errstate(all="ignore"):
        if fam == "weibull":
            return _f(p["gamma"]) + _f(p["alpha"]) * (-np.log(s)) ** (1.0 / _f(p["beta"]))
        if fam == "lognormal":
            return np.exp(_f(p["mu"]) - _f(p["sigma"]) * sp.ndtri(s))
        if fam == "normal":
            return _f(p["mu"]) - _f(p["sigma"]) * sp.ndtri(s)
        if fam == "lnnf":
            mu, sig = _lnnf_to_ln(p["mu_norm"], p["sigma_norm"])
            return np.exp(mu - sig * sp.ndtri(s))
        if fam == "expweib":
            d = _f(p["delta"])
            # 1 - (1-s)^(1/d) without cancellation
            t = -np.expm1(np.log1p(-s) / d)
            return _f(p["alpha"]) * (-np.log(t)) ** (1.0 / _f(p["beta"]))
        if fam == "gengamma":
            return sp.gammainccinv(_f(p["m"]), s) ** (1.0 / _f(p["c"])) / _f(p["lambda_"])
        if fam == "gamma":
            return _f(p["loc"]) + _f(p["scale"]) * sp.gammainccinv(_f(p["a"]), s)
        if fam == "rayleigh":
            return _f(p["loc"]) + _f(p["scale"]) * np.sqrt(-2 * np.log(s))
        if fam == "gumbel_r":
            return _f(p["loc"]) - _f(p["scale"]) * np.log(-np.log1p(-s))
    return icdf(fam, 1.0 - s, **p)


def mean_std(fam, **p):
    """Closed-form mean/std where simple (used for sanity classes only)."""
    if fam == "lnnf":
        return float(p["mu_norm"]), float(p["sigma_norm"])
    if fam == "normal":
        return float(p["mu"]), float(p["sigma"])
    if fam == "lognormal":
        m = math.exp(p["mu"] + p["sigma"] ** 2 / 2)
        return m, m * math.sqrt(math.expm1(p["sigma"] ** 2))
    if fam == "weibull":
        a, b, g = p["alpha"], p["beta"], p["gamma"]
        m = g + a * math.gamma(1 + 1 / b)
        v = a * a * (math.gamma(1 + 2 / b) - math.gamma(1 + 1 / b) ** 2)
        return m, math.sqrt(max(v, 0))
    raise KeyError(fam)


def admissible(fam, p):
    try:
        if fam == "weibull":
            return p["alpha"] > 0 and p["beta"] > 0 and np.isfinite(p["gamma"])
        if fam in ("lognormal", "normal"):
            return p["sigma"] > 0 and np.isfinite(p["mu"])
        if fam == "lnnf":
            return p["mu_norm"] > 0 and p["sigma_norm"] > 0
        if fam == "expweib":
            return p["alpha"] > 0 and p["beta"] > 0 and p["delta"] > 0
        if fam == "gengamma":
            return p["m"] > 0 and p["c"] > 0 and p["lambda_"] > 0
        if fam == "vonmises":
            return p["kappa"] > 0 and np.isfinite(p["mu"])
        if fam == "gamma":
            return p["a"] > 0 and p["scale"] > 0
        if fam in ("rayleigh", "gumbel_r"):
            return p["scale"] > 0
        if fam == "sc_gengamma":
            return p["a"] > 0 and p["c"] > 0 and p["scale"] > 0
        if fam == "normalmix":
            return 0 < p["w"] < 1 and p["sigma"] > 0
    except (KeyError, TypeError):
        return False
    return False
