"""Monitors on every Distribution subclass' cdf / icdf / pdf (C05, reused by C01, C02, C06-C08).

Each call - direct or nested inside ConditionalDistribution, contours, joint
models - is compared with the reference formula at the *effective* parameters
(explicit argument if given, stored value otherwise).
"""
import inspect
import math

import numpy as np

from . import monitors as M
from . import refmodel as R
from . import specs as S

TOL_REL = 1e-10
BUDGET = [20000]  # comparisons per case; further nested calls (quadrature loops) are counted, not compared
VM_ABS = 1e-9


def fam_of(obj):
    for fam, cls in S.classes().items():
        if type(obj) is cls:
            return fam
    return None


def effective_params(fam, obj, args, kwargs):
    """(params dict, explicit dict) for a cdf/pdf/icdf call."""
    names = R.PARAMS[fam]
    explicit = {}
    for n, a in zip(names, args):
        if a is not None:
            explicit[n] = a
    for k, v in kwargs.items():
        if k in names and v is not None:
            explicit[k] = v
    stored = obj.parameters
    eff = {n: (explicit[n] if n in explicit else stored[n]) for n in names}
    return eff, explicit


def _finite_params(eff):
    try:
        for v in eff.values():
            if not np.all(np.isfinite(np.asarray(v, dtype=float))):
                return False
    except (TypeError, ValueError):
        return False
    return True


def _adm(fam, eff):
    try:
        arrs = {k: np.asarray(v, dtype=float) for k, v in eff.items()}
    except (TypeError, ValueError):
        return False
    for n, kind in S.KIND[fam].items():
        if kind == "pos" and np.any(arrs[n] <= 0):
            return False
    if fam == "vonmises" and np.any(arrs["kappa"] >= 50):
        return False  # scipy switches to a normal approximation (abs err ~2e-7): outside the comparison
    return True


def compare(kind, fam, x, eff, got):
    """Returns (ok, worst_index, ref) for one call."""
    xa = np.asarray(x, dtype=float)
    got = np.asarray(got, dtype=float)
    with np.errstate(all="ignore"):
        if kind == "cdf":
            ref = R.cdf(fam, xa, **eff)
        elif kind == "pdf":
            ref = R.pdf(fam, xa, **eff)
        else:
            ref = R.icdf(fam, xa, **eff)
    ref = np.asarray(ref, dtype=float)
    try:
        got_b, ref_b = np.broadcast_arrays(got, ref)
    except ValueError:
        return False, -1, ref
    with np.errstate(all="ignore"):
        if fam == "vonmises":
            mu = np.asarray(eff["mu"], float)
            if kind in ("cdf", "pdf"):
                inside = np.abs(np.broadcast_to(xa - mu, got_b.shape)) <= math.pi
                err = np.abs(got_b - ref_b)
                bad = inside & ~(err <= VM_ABS)
            else:
                # a circular cdf is only known to absolute accuracy: judge the quantile in p-space
                pb = np.broadcast_to(xa, got_b.shape)
                pin = (pb > 0) & (pb < 1)
                back = np.asarray(R.cdf(fam, got_b, **eff), float)
                inrange = np.abs(got_b - np.broadcast_to(mu, got_b.shape)) <= math.pi + 1e-9
                bad = pin & ~((np.abs(back - pb) <= VM_ABS) & inrange)
                ref_b = np.broadcast_to(ref, got_b.shape)
        elif kind == "icdf":
            p = np.broadcast_to(xa, got_b.shape)
            pin = (p > 0) & (p < 1)
            scale = np.maximum(np.abs(ref_b), 1e-300)
            err = np.abs(got_b - ref_b) / scale
            # quantiles near 0 of location-free families: absolute floor relative to the spread
            # (at the largest double below one a quantile may overflow to inf on both sides: equal infinities agree)
            bad = pin & ~((err <= 1e-8) | (np.abs(got_b - ref_b) <= 1e-13) | (got_b == ref_b))
        else:
            err = np.abs(got_b - ref_b)
            tol = TOL_REL * np.abs(ref_b) + 1e-200  # below 1e-200 intermediate terms underflow on both sides
            if kind == "cdf":
                tol = tol + 1e-15
            if fam == "lnnf":
                tol = tol + _lnnf_mapping_tolerance(kind, xa, eff, ref_b)
            same_inf = np.isinf(got_b) & np.isinf(ref_b) & (np.sign(got_b) == np.sign(ref_b))
            bad = ~((err <= tol) | same_inf)
            bad &= ~np.isnan(ref_b)  # reference undefined: not judged
            xb_ = np.broadcast_to(xa, got_b.shape)
            bad &= ~((xb_ != 0) & (np.abs(xb_) < 1e-290))  # (sub)normal-limit arguments lose precision in x itself
            if fam in ("expweib", "weibull", "gengamma", "sc_gengamma"):
                # ... and so does the power (x / scale)**shape when it is itself below the normal range (a quantile of
                # 1e-211 with a shape of 1.5 gives 1e-319): not judged on either side
                try:
                    sc_ = 1.0 / np.asarray(eff["lambda_"], float) if fam == "gengamma" else np.asarray(eff.get("alpha", eff.get("scale", 1.0)), float)
                    sh_ = np.asarray(eff.get("beta", eff.get("c", 1.0)), float)
                    lo_ = np.asarray(eff.get("gamma", eff.get("loc", 0.0)), float)
                    zz_ = np.broadcast_to((xa - lo_) / sc_, got_b.shape)
                    with np.errstate(all="ignore"):
                        bad &= ~((zz_ > 0) & (np.abs(zz_) ** np.broadcast_to(sh_, got_b.shape) < 1e-290))
                except Exception:  # noqa: BLE001
                    pass
    if np.any(bad):
        idx = int(np.argmax(bad.ravel()))
        return False, idx, ref_b
    return True, -1, ref_b


def _lnnf_mapping_tolerance(kind, xa, eff, ref_b):
    """The documented mapping sigma^2 = ln(1 + s^2/m^2) is ill-conditioned for s << m when evaluated
    literally (1 + r rounds with relative error eps/r).  The tolerance is *derived*: the change of the
    reference under that perturbation of sigma."""
    m_, s_ = np.asarray(eff["mu_norm"], float), np.asarray(eff["sigma_norm"], float)
    r = (s_ / m_) ** 2
    delta = 8 * np.finfo(float).eps / np.maximum(r, 1e-300)
    mu, sig = R._lnnf_to_ln(m_, s_)
    fn = R.cdf if kind == "cdf" else R.pdf
    a = np.asarray(fn("lognormal", xa, mu=mu, sigma=sig * (1 + delta)), float)
    b = np.asarray(fn("lognormal", xa, mu=mu, sigma=sig * (1 - delta)), float)
    # mu = ln(m / sqrt(1 + r)) is only known to a few ulp; for a tiny sigma that is amplified by 1/sigma
    dmu = 8 * np.spacing(np.maximum(np.abs(mu), 1.0))
    c_ = np.asarray(fn("lognormal", xa, mu=mu + dmu, sigma=sig), float)
    d_ = np.asarray(fn("lognormal", xa, mu=mu - dmu, sigma=sig), float)
    return np.abs(a - ref_b) + np.abs(b - ref_b) + np.abs(c_ - ref_b) + np.abs(d_ - ref_b)


def _post(kind):
    def post(call):
        c = M.current()
        if c is None:
            return
        obj = call.self
        fam = fam_of(obj)
        if fam is None:
            return
        if call.exc is not None:
            c.count(f"dist.{kind}.raised")
            return
        if c.counts["dist.compare"] >= BUDGET[0]:
            c.count("dist.calls-beyond-budget")
            return
        x = call.args[0] if call.args else call.kwargs.get("x", call.kwargs.get("prob"))
        try:
            eff, explicit = effective_params(fam, obj, call.args[1:], call.kwargs)
        except Exception:  # noqa: BLE001
            return
        if not _finite_params(eff) or not _adm(fam, eff):
            c.count(f"dist.{kind}.skipped-inadmissible")
            return
        try:
            xa = np.asarray(x, dtype=float)
        except (TypeError, ValueError):
            return
        if not np.all(np.isfinite(xa)):
            c.count(f"dist.{kind}.skipped-nonfinite-x")
            return
        ok, idx, ref = compare(kind, fam, xa, eff, call.result)
        c.count(f"dist.{kind}[{fam}]")
        c.count("dist.compare")
        if not ok:
            mech = classify(kind, fam, obj, xa, eff, explicit, call.result)
            got = np.asarray(call.result, dtype=float)
            flat_got = np.broadcast_to(got, np.shape(ref)).ravel() if idx >= 0 else got.ravel()
            flat_x = np.broadcast_to(xa, np.shape(ref)).ravel() if idx >= 0 else xa.ravel()
            c.violation(
                f"{fam}.{kind} differs from the documented formula",
                mechanism=mech,
                family=fam,
                x=float(flat_x[idx]) if idx >= 0 and flat_x.size else None,
                got=float(flat_got[idx]) if idx >= 0 and flat_got.size else None,
                ref=float(np.asarray(ref).ravel()[idx]) if idx >= 0 else None,
                effective={k: np.asarray(v).ravel()[:3].tolist() for k, v in eff.items()},
                explicit=sorted(explicit),
                stored={k: (float(v) if np.ndim(v) == 0 else None) for k, v in obj.parameters.items()},
            )

    return post


def classify(kind, fam, obj, xa, eff, explicit, got):
    """Mechanism predicates for known / fixed findings; None = unclassified."""
    if fam == "normal" and "sigma" in explicit:
        # predicate: the result equals the formula with the *stored* sigma
        eff2 = dict(eff)
        eff2["sigma"] = obj.parameters["sigma"]
        ok, _, _ = compare(kind, fam, xa, eff2, got)
        if ok:
            return "normal-explicit-sigma-ignored"
    return None


_DONE = [False]


def install():
    if _DONE[0]:
        return
    _DONE[0] = True
    for fam, cls in S.classes().items():
        for kind in ("cdf", "pdf", "icdf"):
            # ScipyDistribution subclasses inherit the methods: wrap on the defining class once
            owner = next(k for k in cls.__mro__ if kind in k.__dict__)
            M.wrap(owner, kind, post=_post(kind), tag="distmon")
