"""Known findings (DESIGN 2.4).

known_findings.json is committed and never written at run time.  An entry is

  {"property": "C15", "key": "<mechanism key>", "status": "open" | "fixed",
   "what": "<what fails, by mechanism>", ...}

A violation carries `mechanism`: the key of a predicate that the property's
oracle has *verified on that witness* (never a seed, hash or random value), or
None.  Only `open` entries suppress; `fixed` entries suppress nothing, so a
returning defect is reported again.
"""
import json
import os

from . import HERE

PATH = os.path.join(HERE, "known_findings.json")


def load():
    try:
        with open(PATH) as f:
            data = json.load(f)
    except FileNotFoundError:
        return []
    return data.get("findings", [])


def match(entries, pid, key):
    if key is None:
        return None
    for e in entries:
        if e.get("property") == pid and e.get("key") == key and e.get("status") == "open":
            return e
    return None
