"""Per-case context: where monitors and oracles report what they observed.

A case never aborts on the first violation: conditions *record* and go on, so
one defect cannot mask the next (DESIGN 2.1). The verdict is computed from what
was recorded.
"""
import collections
import json
import math
import traceback

import numpy as np

MAX_VIOL_PER_CASE = 12


def jsonable(o, depth=0):
    """Best-effort conversion of witnesses to JSON-serialisable values."""
    if depth > 6:
        return repr(o)[:200]
    if o is None or isinstance(o, (bool, str)):
        return o
    if isinstance(o, (int, np.integer)):
        return int(o)
    if isinstance(o, (float, np.floating)):
        f = float(o)
        if math.isnan(f) or math.isinf(f):
            return repr(f)
        return f
    if isinstance(o, np.ndarray):
        if o.size > 24:
            flat = o.ravel()
            return {
                "shape": list(o.shape),
                "dtype": str(o.dtype),
                "head": [jsonable(v, depth + 1) for v in flat[:8].tolist()],
                "tail": [jsonable(v, depth + 1) for v in flat[-4:].tolist()],
            }
        return [jsonable(v, depth + 1) for v in o.tolist()]
    if isinstance(o, dict):
        return {str(k): jsonable(v, depth + 1) for k, v in list(o.items())[:40]}
    if isinstance(o, (list, tuple)):
        if len(o) > 24:
            return {
                "len": len(o),
                "head": [jsonable(v, depth + 1) for v in o[:8]],
                "tail": [jsonable(v, depth + 1) for v in o[-4:]],
            }
        return [jsonable(v, depth + 1) for v in o]
    return repr(o)[:200]


class Ctx:
    def __init__(self, case):
        self.case = case
        self.counts = collections.Counter()  # monitor evaluations, by monitor name
        self.violations = []
        self.n_violations = 0
        self.inconclusive = []
        self.classes = {}
        self.nontrivial = False
        self.sig = None
        self.sample = None
        self.notes = {}

    # -- reporting -----------------------------------------------------
    def count(self, name, n=1):
        self.counts[name] += n

    def violation(self, what, mechanism=None, **detail):
        """Record a refuting observation.

        mechanism: None (unclassified) or the key of a mechanism predicate that
        the caller has *verified* on this witness (see findings.py)."""
        self.n_violations += 1
        if len(self.violations) < MAX_VIOL_PER_CASE:
            self.violations.append(
                {"what": what, "mechanism": mechanism, "detail": jsonable(detail)}
            )
        else:
            # keep distinct mechanisms even past the cap
            seen = {(v["what"].split(":")[0], v["mechanism"]) for v in self.violations}
            if (what.split(":")[0], mechanism) not in seen and len(self.violations) < 4 * MAX_VIOL_PER_CASE:
                self.violations.append(
                    {"what": what, "mechanism": mechanism, "detail": jsonable(detail)}
                )

    def inconcl(self, reason):
        if len(self.inconclusive) < 8:
            self.inconclusive.append(str(reason)[:300])

    def cls(self, key, value):
        self.classes[key] = str(value)

    def check(self, name, ok, what=None, mechanism=None, **detail):
        """Count one evaluation of monitor `name`; record a violation if not ok."""
        self.counts[name] += 1
        if not ok:
            self.violation(what or name, mechanism, **detail)
        return bool(ok)

    # -- result --------------------------------------------------------
    def result(self):
        return {
            "case_id": self.case.get("id"),
            "sig": self.sig,
            "nontrivial": bool(self.nontrivial),
            "counts": dict(self.counts),
            "violations": self.violations,
            "n_violations": self.n_violations,
            "inconclusive": self.inconclusive,
            "classes": self.classes,
            "sample": jsonable(self.sample) if self.sample is not None else None,
            "notes": jsonable(self.notes),
        }


def origin_of_exception(exc):
    """Where did an uncaught exception come from?  'virocon' if the innermost
    frame that belongs to either virocon or vmon is a virocon frame."""
    tb = traceback.extract_tb(exc.__traceback__)
    where = "other"
    func = "?"
    for fr in tb:
        fn = fr.filename.replace("\\", "/")
        if "/virocon/" in fn:
            where, func = "virocon", f"{fn.rsplit('/', 1)[-1]}:{fr.name}"
        elif "/vmon/" in fn:
            where, func = "vmon", f"{fn.rsplit('/', 1)[-1]}:{fr.name}"
    return where, func


def dumps(obj):
    return json.dumps(obj, sort_keys=True, default=lambda o: jsonable(o))
