"""C17 - design conditions lie on the contour at the requested abscissa, top ordinate; intersection() is exact."""
import math

import numpy as np

from .. import monitors as M
from .. import specs as S

ID = "C17"
LEVEL = "exploration"
RULE = (
    "case = (closed 2-D contour: IFORM / ISORM / direct-sampling contour of a random 2-D model (second variable possibly Normal: negative ordinates), "
    "random convex polygon, random star-shaped polygon (several crossings per abscissa), shifted to negative ordinates or not; steps = None | int | explicit list "
    "inside and outside the range, kept in general position (no abscissa within 1e-6*range of a vertex); swap_axis both ways) and random polyline pairs for "
    "intersection(). Monitors on calculate_design_conditions and on intersection (both bindings) compare with the harness's own segment arithmetic. "
    "Non-trivial = at least one abscissa crosses the polygon / at least one crossing of the polylines; distinct = (contour seed, steps, swap_axis)."
    ' Also: contours in units 1e-8..1e6; contours of 4097..13000 vertices.'
)
ASSUMPTIONS = [
    "general position is enforced by the generator; tolerance 1e-9 * scale",
    "default / integer steps: linspace(min + 1e-4*range, max - 1e-4*range, num) as documented in the code comment",
]
REQUIRED = ["c17.top-ordinate", "c17.crossing-set", "c17.swap-axis", "c17.intersection-set", "c17.default-steps"]
CASE_TIMEOUT_S = 300


class _C:
    def __init__(self, coords):
        self.coordinates = coords


def brute_vertical(P, x0):
    """Ordinates where the closed polygon P crosses the vertical line x = x0 (general position)."""
    Q = np.vstack([P, P[:1]])
    ys = []
    for (xa, ya), (xb, yb) in zip(Q[:-1], Q[1:]):
        if (xa - x0) * (xb - x0) < 0:
            t = (x0 - xa) / (xb - xa)
            ys.append(ya + t * (yb - ya))
    return ys


def brute_vertical_with_ties(P, x0):
    """Ordinates of the polygon on the vertical line x = x0 when x0 may EXACTLY equal vertex abscissae: proper
    crossings plus every vertex on the line (a polygon edge lying on the line contributes its two end points)."""
    Q = np.vstack([P, P[:1]])
    ys = [float(ya) for xa, ya in P if xa == x0]
    for (xa, ya), (xb, yb) in zip(Q[:-1], Q[1:]):
        if (xa - x0) * (xb - x0) < 0:
            t = (x0 - xa) / (xb - xa)
            ys.append(ya + t * (yb - ya))
    return ys


def brute_polyline_crossings(x1, y1, x2, y2):
    out = []
    for i in range(len(x1) - 1):
        p, r = np.array([x1[i], y1[i]]), np.array([x1[i + 1] - x1[i], y1[i + 1] - y1[i]])
        for j in range(len(x2) - 1):
            q, s = np.array([x2[j], y2[j]]), np.array([x2[j + 1] - x2[j], y2[j + 1] - y2[j]])
            den = r[0] * s[1] - r[1] * s[0]
            if den == 0:
                continue
            t = ((q - p)[0] * s[1] - (q - p)[1] * s[0]) / den
            u = ((q - p)[0] * r[1] - (q - p)[1] * r[0]) / den
            if 0 <= t <= 1 and 0 <= u <= 1:
                out.append(p + t * r)
    return np.array(out).reshape(-1, 2)


def _post_dc(call):
    c = M.current()
    if c is None:
        return
    contour = call.args[0] if call.args else call.kwargs.get("contour")
    steps = call.kwargs.get("steps", call.args[1] if len(call.args) > 1 else None)
    swap = call.kwargs.get("swap_axis", call.args[2] if len(call.args) > 2 else False)
    P = np.asarray(contour.coordinates, float)
    if swap:
        P = P[:, ::-1]
    xr = float(P[:, 0].max() - P[:, 0].min())
    scale = float(max(np.max(np.abs(P)), 1e-12))
    tol = 1e-9 * scale
    info = {"n_vertices": int(len(P)), "swap_axis": bool(swap), "steps": steps if not hasattr(steps, "__len__") else list(map(float, steps))[:12], "y_range": [float(P[:, 1].min()), float(P[:, 1].max())]}
    if steps is None or not hasattr(steps, "__iter__"):
        num = 10 if steps is None else int(steps)
        eps = 1e-4 * xr
        req = np.linspace(P[:, 0].min() + eps, P[:, 0].max() - eps, num)
        default = True
    else:
        req = np.asarray(list(steps), float)
        default = False
    if call.exc is not None:
        mech = None
        if isinstance(call.exc, AssertionError):
            # predicate of the (fixed) finding: some requested abscissa crosses the polygon more than twice
            import virocon._intersection as vi

            y_ = np.r_[P[:, 1], P[0, 1]]
            x_ = np.r_[P[:, 0], P[0, 0]]
            yl = [np.min(y_) - np.max(y_) * 0.1, np.max(y_) + np.max(y_) * 0.1]
            if any(len(M.original(vi.intersection)(x_, y_, [x0, x0], yl)[0]) > 2 for x0 in req):
                mech = "design-conditions-assert-on-more-than-two-crossings"
        c.check("c17.no-exception", False, f"calculate_design_conditions raised {type(call.exc).__name__}", mech, message=str(call.exc)[:120], **info)
        return
    res = np.asarray(call.result, float).reshape(-1, 2)
    # general position only
    vx = P[:, 0]
    exact_hit = np.array([bool(np.any(vx == x0)) for x0 in req], bool)
    # a vertex whose abscissa is within rounding of x0 without being equal makes the crossing set ambiguous
    near = np.array([bool(np.any((vx != x0) & (np.abs(vx - x0) <= 1e-6 * max(xr, 1e-300)))) for x0 in req], bool)
    gen = ~near  # judged: general position, or an abscissa that EXACTLY equals vertex abscissae (and no near miss)
    want = []
    for x0, g, eh in zip(req, gen, exact_hit):
        ys = brute_vertical_with_ties(P, x0) if eh else brute_vertical(P, x0)
        if ys:
            want.append((x0, max(ys), g, len(ys)))
    c.count("c17.abscissae-on-a-vertex", int(exact_hit.sum()))
    c.count("c17.abscissae", int(len(req)))
    if default:
        got_x = res[:, 0]
        exp_x = np.array([w[0] for w in want if w[2]])  # crossing abscissae in general position must all be there
        tolx = 1e-9 * max(xr, 1e-300) + tol
        all_requested = all(np.min(np.abs(req - g)) <= tolx for g in got_x) if len(req) else len(got_x) == 0
        all_present = all(np.min(np.abs(got_x - e)) <= tolx for e in exp_x) if len(got_x) else len(exp_x) == 0
        okd = all_requested and all_present
        c.check("c17.default-steps", okd, "default / integer steps do not span the contour's extent (min+eps .. max-eps)", None if okd else (_limits_mech(P, req, res) if len(got_x) < len(exp_x) else None), got=got_x[:4], want=exp_x[:4], n_got=int(len(got_x)), n_want=int(len(exp_x)), **info)
    if not np.all(gen):
        c.count("c17.not-general-position-skipped")
        return
    mech = None
    if np.any(exact_hit):
        mech_tie = "design-conditions-vertex-or-vertical-edge-on-the-probe-line"
    else:
        mech_tie = None
    exp_x = np.array([w[0] for w in want])
    ok_set = len(res) == len(want) and (len(want) == 0 or bool(np.all(np.abs(res[:, 0] - exp_x) <= tol)))
    if not ok_set:
        mech = _tie_mech(P, req, res, exact_hit, tol) or _limits_mech(P, req, res)
    c.check("c17.crossing-set", ok_set, "the returned abscissae are not exactly the requested ones that cross the contour, in order", mech, returned=res[:, 0][:8], expected=exp_x[:8], **info)
    if ok_set and len(want):
        top = np.array([w[1] for w in want])
        okt = np.abs(res[:, 1] - top) <= tol
        if not np.all(okt):
            # predicate of the (fixed) finding: every wrong ordinate belongs to an abscissa that is exactly a vertex abscissa
            bad_x = res[~okt, 0]
            if all(np.any(P[:, 0] == bx) for bx in bad_x):
                mech = "design-conditions-vertex-or-vertical-edge-on-the-probe-line"
            else:
                mech = _limits_mech(P, req, res)
        j = int(np.argmin(okt))
        c.check("c17.top-ordinate", bool(np.all(okt)), "a design condition does not carry the largest ordinate of the contour at its abscissa", mech, abscissa=float(res[j, 0]), got=float(res[j, 1]), want=float(top[j]), crossings=int(want[j][3]), **info)


def _limits_mech(P, req, res):
    """Predicate of the (fixed) finding: the vertical probe segment [min(y)-0.1*max(y), max(y)+0.1*max(y)]
    does not cover the polygon's ordinates (max(y) <= 0 or min(y) < 0 < ... ), i.e. ordinates are negative."""
    y = np.r_[P[:, 1], P[0, 1]]
    lo, hi = np.min(y) - np.max(y) * 0.1, np.max(y) + np.max(y) * 0.1
    if lo > np.min(y) or hi < np.max(y):
        return "design-conditions-probe-line-misses-negative-ordinates"
    return None


def _tie_mech(P, req, res, exact_hit, tol):
    """Predicate: the only abscissae missing from the result are exact vertex abscissae."""
    got = set(np.round(res[:, 0], 12).tolist())
    missing = [x0 for x0 in req if brute_vertical_with_ties(P, x0) and round(float(x0), 12) not in got]
    if missing and all(np.any(P[:, 0] == m) for m in missing):
        return "design-conditions-vertex-or-vertical-edge-on-the-probe-line"
    return None


def _post_inter(call):
    c = M.current()
    if c is None or call.exc is not None:
        return
    if not c.case.get("judge_intersection"):
        c.count("c17.intersection-calls-nested")
        return
    x1, y1, x2, y2 = [np.asarray(a, float) for a in call.args[:4]]
    gx, gy = call.result
    got = np.c_[gx, gy]
    want = brute_polyline_crossings(x1, y1, x2, y2)
    scale = float(max(np.max(np.abs(np.r_[x1, y1, x2, y2])), 1e-12))
    tol = 1e-9 * scale

    def key(a):
        return a[np.lexsort((a[:, 1], a[:, 0]))] if len(a) else a

    def same_set(a, b):
        # pair every point with an unused point of the other set within the tolerance (sorting is not safe when two
        # crossings share an abscissa up to rounding)
        if len(a) != len(b):
            return False
        used = np.zeros(len(b), bool)
        for pnt in a:
            dist = np.max(np.abs(b - pnt), axis=1)
            dist[used] = np.inf
            j = int(np.argmin(dist)) if len(b) else -1
            if j < 0 or dist[j] > tol:
                return False
            used[j] = True
        return True

    ok = same_set(got, want)
    c.check("c17.intersection-set", ok, "intersection() does not return exactly the crossing points of the two polylines", n_got=int(len(got)), n_want=int(len(want)), got=key(got)[:4], want=key(want)[:4])
    c.count("c17.crossings", int(len(want)))


_DONE = [False]


def install():
    if _DONE[0]:
        return
    _DONE[0] = True
    import virocon
    import virocon._intersection as vi
    import virocon.plotting as vp
    import virocon.utils as vu

    M.wrap(vi, "intersection", post=_post_inter, tag="c17", is_method=False)
    vu.intersection = vi.intersection
    M.wrap(vu, "calculate_design_conditions", post=_post_dc, tag="c17", is_method=False)
    vp.calculate_design_conditions = vu.calculate_design_conditions
    virocon.calculate_design_conditions = vu.calculate_design_conditions


def gen_cases(tier, seed):
    rng = np.random.default_rng([seed, 17])
    n = 150 if tier == "quick" else 3000
    kinds = ["iform", "isorm", "ds", "convex", "star", "star", "iform-normal", "lattice", "rectilinear", "star-long", "iform-long"]
    cases = []
    for i in range(n):
        cases.append(
            {
                "kind": "contour",
                "shape": kinds[i % len(kinds)],
                "steps": str(rng.choice(["none", "int", "list-inside", "list-mixed", "int-list", "int-array", "range", "tuple", "vertex-abscissae", "vertex-abscissae"])),
                "swap": bool(rng.integers(2)),
                "negative": bool(rng.random() < 0.35),
                "sub": int(rng.integers(1 << 31)),
            }
        )
    for i in range(60 if tier == "quick" else 1500):
        cases.append({"kind": "polylines", "judge_intersection": True, "sub": int(rng.integers(1 << 31))})
    cases.append({"kind": "repo-tests", "judge_intersection": True, "files": ["tests/test_utils.py", "tests/test_intersection.py"], "cost": 10})
    return cases


UNITS = [1.0, 1.0, 1e-6, 1e-3, 1e3, 1e6, 1e-8, 1.0, 1.0]


def _polygon(case, rng):
    from virocon import DirectSamplingContour, IFORMContour, ISORMContour

    shp = case["shape"]
    if shp == "iform-long":
        shp = "iform"
        long_n = int(rng.choice([4097, 5000, 8200, 9000]))
    else:
        long_n = None
    if shp in ("iform", "isorm", "ds", "iform-normal"):
        fams = ["weibull", "lognormal", "expweib", "gengamma", "lnnf"]
        if shp == "iform-normal":
            spec = S.gen_spec(rng, structure=[None, 0], fams=["normal"], first_fams=fams, allow_hostile=False)
        else:
            spec = S.gen_spec(rng, structure=[None, int(rng.integers(2)) and 0], fams=fams, allow_hostile=False)
        model = S.build_virocon(spec)
        alpha = float(10 ** rng.uniform(-5, -1))
        with M.quiet():
            if shp == "ds":
                smp = S.RefModel(spec).sample(4000, rng)
                P = DirectSamplingContour(model, max(alpha, 1e-3), sample=smp, deg_step=float(rng.choice([5, 10, 20]))).coordinates
            elif shp == "isorm":
                P = ISORMContour(model, alpha, n_points=int(rng.choice([20, 60, 180]))).coordinates
            else:
                P = IFORMContour(model, alpha, n_points=long_n or int(rng.choice([20, 60, 180]))).coordinates
        P = np.asarray(P, float)
    elif shp == "convex":
        k = int(rng.integers(5, 40))
        t = np.sort(rng.uniform(0, 2 * math.pi, k))
        P = np.c_[3 + 2.5 * np.cos(t), 4 + 1.5 * np.sin(t)] * float(np.exp(rng.uniform(-1, 2)))
    elif shp == "lattice":
        # integer vertices: requested integer abscissae hit vertices exactly, vertical edges lie on probe lines
        k = int(rng.integers(4, 14))
        t = np.sort(rng.uniform(0, 2 * math.pi, k))
        P = np.round(np.c_[6 + 5 * np.cos(t) * rng.uniform(0.4, 1, k), 7 + 4 * np.sin(t) * rng.uniform(0.4, 1, k)])
        P = P[np.r_[True, np.any(np.diff(P, axis=0) != 0, axis=1)]]
    elif shp == "rectilinear":
        # a staircase like the cell-centre boundary of a highest-density region: only horizontal / vertical edges
        n = int(rng.integers(3, 9))
        h = np.sort(rng.uniform(1, 8, n))[::-1]
        xs_ = np.arange(n + 1) * float(rng.choice([0.5, 1.0, 0.25]))
        up = [(xs_[i], h[i]) for i in range(n) for _ in (0,)]
        pts = []
        for i in range(n):
            pts.append((xs_[i], h[i]))
            pts.append((xs_[i + 1], h[i]))
        pts += [(xs_[-1], 0.0), (xs_[0], 0.0)]
        P = np.array(pts, float)
    else:
        # (size as an input class: contours of more than 4096, 8192 segments)
        k = int(rng.integers(8, 60)) if shp != "star-long" else int(rng.choice([4098, 6000, 8193, 13000]))
        t = np.sort(rng.uniform(0, 2 * math.pi, k))
        r = 1 + 0.8 * rng.random(k) ** 2 * (rng.random(k) < 0.5) + 0.6 * np.sin(int(rng.integers(2, 6)) * t)
        r = np.maximum(r, 0.15)
        P = np.c_[5 + 3 * r * np.cos(t), 6 + 2 * r * np.sin(t)]
    P = P[np.all(np.isfinite(P), axis=1)]
    if case["negative"]:
        P = P.copy()
        P[:, 1] -= float(P[:, 1].max() * rng.uniform(0.3, 2.5)) if P[:, 1].max() > 0 else 1.0
        if rng.random() < 0.5:
            P[:, 0] -= float(P[:, 0].max() * rng.uniform(0.3, 1.5))
    # units as an input class: the same contour in micro-units or mega-units (an absolute tolerance shows up here)
    unit = UNITS[int(case["sub"]) % len(UNITS)]
    if unit != 1.0 and shp not in ("lattice",):
        P = P * unit
    return P


def run_case(case, ctx):
    from virocon import calculate_design_conditions
    from virocon._intersection import intersection

    if case["kind"] == "repo-tests":
        from .. import repotests

        ctx.cls("shape", "repository-tests")
        repotests.run(ctx, case["files"])
        return
    rng = np.random.default_rng(case["sub"])
    if case["kind"] == "polylines":
        n1, n2 = int(rng.integers(2, 40)), int(rng.integers(2, 40))
        kind = str(rng.choice(["random-walk", "function-graphs", "segment-vs-polygon"]))
        if kind == "random-walk":
            a = np.cumsum(rng.standard_normal((n1, 2)), axis=0)
            b = np.cumsum(rng.standard_normal((n2, 2)), axis=0) + rng.standard_normal(2)
        elif kind == "function-graphs":
            xa = np.sort(rng.uniform(0, 10, n1))
            xb = np.sort(rng.uniform(0, 10, n2))
            a = np.c_[xa, np.sin(xa) + 0.3 * rng.standard_normal(n1)]
            b = np.c_[xb, np.cos(xb) + 0.3 * rng.standard_normal(n2)]
        else:
            t = np.linspace(0, 2 * math.pi, n1 + 1)
            a = np.c_[np.cos(t) * (1 + 0.3 * rng.random(n1 + 1)), np.sin(t)]
            a[-1] = a[0]
            x0 = float(rng.uniform(-0.8, 0.8))
            b = np.array([[x0, -3.0], [x0 + 0.01 * rng.standard_normal(), 3.0]])
        ctx.cls("polylines", kind)
        ctx.sig = f"polylines|{case['sub']}"
        x, y = intersection(a[:, 0], a[:, 1], b[:, 0], b[:, 1])
        # call history: the SAME coordinate arrays, changed in place between calls (a curve that is shifted / rescaled and
        # intersected again) - every call is judged by the monitor against the arrays as they are at that call
        x1, y1, x2, y2 = a[:, 0].copy(), a[:, 1].copy(), b[:, 0].copy(), b[:, 1].copy()
        intersection(x1, y1, x2, y2)
        for step in range(3):
            y1 += float(rng.uniform(-0.6, 0.6))
            x1 *= float(rng.uniform(0.8, 1.25))
            intersection(x1, y1, x2, y2)
        ctx.count("c17.intersection-after-in-place-change", 3)
        ctx.nontrivial = len(x) > 0
        ctx.sample = {"kind": kind, "n1": int(len(a)), "n2": int(len(b)), "crossings": int(len(x))}
        return
    P = _polygon(case, rng)
    if len(P) < 3:
        ctx.inconcl("degenerate contour")
        return
    ctx.cls("shape", case["shape"])
    ctx.cls("steps", case["steps"])
    ctx.cls("negative-ordinates", bool(P[:, 1].min() < 0))
    ctx.cls("swap", case["swap"])
    xi = 1 if case["swap"] else 0
    lo, hi = float(P[:, xi].min()), float(P[:, xi].max())
    rngx = hi - lo

    def general(xs):
        xs = np.asarray(xs, float)
        vx = P[:, xi]
        out = []
        for x0 in xs:
            k = 0
            while np.min(np.abs(vx - x0)) <= 2e-6 * rngx and k < 20:
                x0 += 3.1e-6 * rngx
                k += 1
            out.append(float(x0))
        return out

    if case["steps"] == "none":
        steps = None
    elif case["steps"] == "int":
        steps = int(rng.integers(2, 25))
    elif case["steps"] == "list-inside":
        steps = general(np.sort(rng.uniform(lo + 0.02 * rngx, hi - 0.02 * rngx, int(rng.integers(1, 12)))))
    elif case["steps"] in ("int-list", "int-array", "range"):
        # all-integer abscissae (int list, int ndarray, range object): scale the polygon so that several integers fall inside
        if rngx < 6:
            f = 8.0 / max(rngx, 1e-9)
            P = P.copy()
            P[:, xi] = (P[:, xi] - lo) * f + math.floor(lo)
            lo, hi = float(P[:, xi].min()), float(P[:, xi].max())
            rngx = hi - lo
        stride = max(1, int((math.ceil(hi) - math.floor(lo) + 3) // 40))  # (a contour in mega-units spans millions of integers)
        ints = [k for k in range(int(math.floor(lo)) - 1, int(math.ceil(hi)) + 2, stride) if np.min(np.abs(P[:, xi] - k)) > 2e-6 * rngx]
        if not ints:
            ints = [int(round((lo + hi) / 2))]
        if case["steps"] == "int-list":
            steps = [int(k) for k in ints]
        elif case["steps"] == "int-array":
            steps = np.array(ints, dtype=np.int64)
        else:
            steps = range(ints[0], ints[-1] + 1, stride)
            if any(np.min(np.abs(P[:, xi] - k)) <= 2e-6 * rngx for k in steps):
                steps = [int(k) for k in ints]
    elif case["steps"] == "vertex-abscissae":
        vs = np.unique(P[:, xi])
        steps = [float(v) for v in vs[:: max(1, len(vs) // 12)]]
    elif case["steps"] == "tuple":
        steps = tuple(general(np.sort(rng.uniform(lo + 0.02 * rngx, hi - 0.02 * rngx, int(rng.integers(1, 12))))))
    else:
        steps = general(rng.uniform(lo - 0.3 * rngx, hi + 0.3 * rngx, int(rng.integers(1, 12))))
    ctx.sig = f"contour|{case['sub']}|{case['steps']}|{case['swap']}"
    con = _C(P)
    try:
        res = calculate_design_conditions(con, steps=steps, swap_axis=case["swap"])
    except AssertionError:
        res = None  # judged by the monitor
    ctx.nontrivial = res is not None and len(res) > 0
    ctx.sample = {"shape": case["shape"], "n_vertices": int(len(P)), "steps": (list(steps)[:6] if hasattr(steps, "__iter__") else steps), "swap_axis": case["swap"], "y_range": [float(P[:, 1].min()), float(P[:, 1].max())], "n_design_conditions": None if res is None else int(len(res))}
    # swap_axis is equivalent to exchanging the two coordinates
    if res is not None:
        try:
            with M.quiet():
                alt = calculate_design_conditions(_C(P[:, ::-1].copy()), steps=steps, swap_axis=not case["swap"])
            same = np.shape(alt) == np.shape(res) and bool(np.all(np.abs(np.asarray(alt, float) - np.asarray(res, float)) <= 1e-9 * max(np.max(np.abs(P)), 1e-12)))
            ctx.check("c17.swap-axis", same, "swap_axis is not equivalent to exchanging the two coordinates", got=np.asarray(res)[:3], exchanged=np.asarray(alt)[:3])
        except AssertionError:
            ctx.count("c17.swap-axis-assert-skipped")
