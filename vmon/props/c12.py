"""C12 - maximum-likelihood fits do not lose likelihood and are scale-equivariant."""
import math

import numpy as np

from .. import monitors as M
from .. import refmodel as R
from .. import specs as S

ID = "C12"
LEVEL = "exploration"
REGION = {
    "weibull": {"alpha": (0.3, 8.0), "beta": (0.8, 4.0), "gamma": (0.05, 2.0)},
    "lognormal": {"mu": (-3.0, 3.0), "sigma": (0.05, 1.0)},
    "normal": {"mu": (0.5, 15.0), "sigma": (0.2, 5.0)},
    "lnnf": {"mu_norm": (0.3, 12.0), "sigma_norm": (0.1, 4.0)},
    "expweib": {"alpha": (0.05, 8.0), "beta": (0.8, 3.0), "delta": (0.5, 5.0)},
    "gengamma": {"m": (0.5, 5.0), "c": (0.8, 3.0), "lambda_": (0.1, 3.0)},
    "vonmises": {"kappa": (0.3, 10.0), "mu": (-2.0, 2.0)},
    "gamma": {"a": (0.6, 8.0), "loc": (0.0, 0.0), "scale": (0.2, 4.0)},
    "rayleigh": {"loc": (0.0, 1.0), "scale": (0.3, 5.0)},
    "gumbel_r": {"loc": (0.5, 8.0), "scale": (0.3, 3.0)},
    "sc_gengamma": {"a": (0.6, 5.0), "c": (0.8, 3.0), "loc": (0.0, 0.0), "scale": (0.3, 4.0)},
}
RULE = (
    "case = (family, generating parameters from the regular region REGION (printed in the evidence) with data median in [0.05,20], n in 100..5000, "
    "fixed parameters: none | a proper subset fixed at the generating values; history: none | an instance of the same family fitted with fixed parameters earlier in the process; start values: library default | user start = generating values perturbed by factors in [0.5,2] | generating values, scale factor c keeping "
    "c*median in [0.05,20]). A monitor on Distribution.fit(method='mle') records start and fitted parameters; the log-likelihood is computed with the "
    "reference pdf. Clauses: LL(fit) >= LL(start) - slack (start admissible), LL(fit) >= LL(generating) - slack, finite and admissible estimates, "
    "equivariance judged in likelihood space (neither fit beaten by the other one rescaled by more than tau); parameter-space equality for the "
    "closed-form estimators (Normal, LogNormal, LogNormalNormFit). Non-trivial = start values differ from the estimates; distinct = (family, parameters, n, start kind, c)."
    ' Also: every documented way of requesting maximum likelihood (positional, keyword, with string / array weights that must be ignored, upper case); negative locations (data <= 0).'
)
ASSUMPTIONS = [
    "log-likelihood computed with the reference pdf (refmodel.py)",
    "slack for 'not lower' = 1e-5*n + 1e-3; tau = 0.05 + 1e-4*n (optimiser termination on flat ridges); an infinite fitted likelihood (3-parameter Weibull, "
    "beta<1, gamma on the sample minimum) satisfies 'not lower' and makes the equivariance comparison of that case trivial",
    "regular region: " + repr(REGION),
    "ScipyDistribution subclass 'gamma' is fitted with f_loc=0 (a free location of a gamma MLE is outside what the statement calls regular)",
]
REQUIRED = ["c12.not-lower-than-start", "c12.not-lower-than-generating", "c12.finite-admissible", "c12.equivariant-likelihood"]
CASE_TIMEOUT_S = 600
CLOSED_FORM = ("normal", "lognormal", "lnnf")


def _draw(rng, fam):
    for _ in range(200):
        p = {}
        for k, (lo, hi) in REGION[fam].items():
            kind = S.KIND[fam][k]
            if hi == lo:
                p[k] = lo
            elif kind == "pos":
                p[k] = float(np.exp(rng.uniform(math.log(lo), math.log(hi))))
            elif kind == "loc+":
                p[k] = 0.0 if rng.random() < 0.5 else float(rng.uniform(lo, hi))
            else:
                p[k] = float(rng.uniform(lo, hi))
        if fam == "vonmises":
            return p
        med = float(R.icdf(fam, 0.5, **p))
        if 0.05 <= med <= 20:
            return p
    return p


def gen_cases(tier, seed):
    rng = np.random.default_rng([seed, 12])
    reps = 6 if tier == "quick" else 120
    cases = []
    for fam in S.ALL_FAMS:
        for r in range(reps):
            p = _draw(rng, fam)
            n = int(rng.choice([100, 300, 1000, 5000], p=[0.25, 0.35, 0.3, 0.1]))
            med = float(R.icdf(fam, 0.5, **p)) if fam != "vonmises" else 1.0
            lo, hi = 0.05 / med, 20 / med
            c = float(np.exp(rng.uniform(math.log(max(lo, 0.1)), math.log(min(hi, 10.0))))) if hi > lo else 1.0
            if abs(math.log(c)) < 0.2:
                c = c * 1.7 if c * 1.7 * med <= 20 else c / 1.7
            start_kind = ["default", "perturbed", "generating"][r % 3]
            cases.append({"fam": fam, "gen": p, "n": n, "c": c, "start": start_kind, "prelude": bool(r % 2), "sub": int(rng.integers(1 << 31)), "cost": n / 500})
        # fits with a proper subset of the parameters FIXED at the generating values (what every conditional model does):
        # all clauses still apply to the free parameters
        names_ = R.PARAMS[fam]
        for r in range(2 if tier == "quick" else 30):
            p = _draw(rng, fam)
            k = int(rng.integers(1, len(names_))) if len(names_) > 1 else 0
            fixed = sorted(rng.choice(names_, size=k, replace=False).tolist()) if k else []
            n = int(rng.choice([300, 1000]))
            med = float(R.icdf(fam, 0.5, **p)) if fam != "vonmises" else 1.0
            c = 2.0 if med < 3 else 0.5
            cases.append({"fam": fam, "gen": p, "n": n, "c": c, "start": ["default", "perturbed"][r % 2], "prelude": False, "fixed": fixed, "sub": int(rng.integers(1 << 31)), "cost": n / 500})
        # user start values at the edges of the magnitude range (small and large data scale), where a wrong use of the
        # start values (order, scale vs log-scale) is far from the optimum
        for edge in ("small", "large"):
            for _try in range(40):
                p = _draw(rng, fam)
                med = float(R.icdf(fam, 0.5, **p)) if fam != "vonmises" else 1.0
                if fam == "vonmises" or (edge == "small" and med < 0.3) or (edge == "large" and med > 6):
                    break
            n = int(rng.choice([300, 1000]))
            cases.append({"fam": fam, "gen": p, "n": n, "c": 2.0 if edge == "small" else 0.5, "start": "generating" if edge == "small" else "perturbed", "prelude": False, "sub": int(rng.integers(1 << 31)), "cost": n / 500})
    # rounded data (ties): every third regular case of the families with positive support
    for k, cse in enumerate(cases):
        if k % 3 == 1 and R.SUPPORT[cse["fam"]] == "pos" and not cse.get("fixed") and cse["fam"] not in ("weibull",):
            cse["ties"] = True
    # data that legitimately contain zeros and negative values: a negative location (Weibull with the location fixed,
    # as every shipped model does; normal, Gumbel, Rayleigh with the location free)
    nrng = np.random.default_rng([seed, 12, 4])
    LOC = {"weibull": ("gamma", "alpha"), "normal": ("mu", "sigma"), "gumbel_r": ("loc", "scale"), "rayleigh": ("loc", "scale")}
    for fam, (loc, scale) in LOC.items():
        if fam not in S.ALL_FAMS:
            continue
        for r in range(2 if tier == "quick" else 20):
            p = _draw(nrng, fam)
            p[loc] = -float(nrng.uniform(0.3, 1.0)) * float(p[scale])
            cases.append({"fam": fam, "gen": p, "n": int(nrng.choice([400, 3000])), "c": 2.0, "start": ["default", "generating"][r % 2], "prelude": False, "fixed": [loc] if fam == "weibull" else [], "negative_location": True, "sub": int(nrng.integers(1 << 31)), "cost": 2})
    return cases


def scale_params(fam, p, c):
    q = dict(p)
    if fam == "weibull":
        q["alpha"], q["gamma"] = p["alpha"] * c, p["gamma"] * c
    elif fam == "lognormal":
        q["mu"] = p["mu"] + math.log(c)
    elif fam == "normal":
        q["mu"], q["sigma"] = p["mu"] * c, p["sigma"] * c
    elif fam == "lnnf":
        q["mu_norm"], q["sigma_norm"] = p["mu_norm"] * c, p["sigma_norm"] * c
    elif fam == "expweib":
        q["alpha"] = p["alpha"] * c
    elif fam == "gengamma":
        q["lambda_"] = p["lambda_"] / c
    elif fam in ("gamma", "rayleigh", "gumbel_r", "sc_gengamma"):
        q["loc"], q["scale"] = p["loc"] * c, p["scale"] * c
    return q


def loglik(fam, x, p):
    try:
        pf = {k: float(v) for k, v in p.items()}
    except (TypeError, ValueError):
        return float("nan")
    if not all(np.isfinite(v) for v in pf.values()) or not R.admissible(fam, pf):
        return float("nan")
    with np.errstate(all="ignore"):
        ll = np.asarray(R.logpdf(fam, x, **pf), float)
    if np.any(np.isnan(ll)):
        return float("nan")
    if np.any(np.isposinf(ll)):
        return float("inf")
    return float(np.sum(ll))


_LAST = {}


def _pre_fit(call):
    return dict(call.self.parameters)


def _post_fit(call):
    c = M.current()
    if c is None:
        return
    args = list(call.args)
    method = args[1] if len(args) > 1 else call.kwargs.get("method", "mle")
    if str(method).lower() != "mle":
        return
    _LAST["start"] = call.pre
    _LAST["after"] = dict(call.self.parameters) if call.exc is None else None
    _LAST["exc"] = call.exc
    c.count("c12.fit-observed")


def install():
    from virocon.distributions import Distribution

    M.wrap(Distribution, "fit", pre=_pre_fit, post=_post_fit, tag="c12")


FORMS = ["default", "positional-mle", "keyword-mle-weights-none", "mle-with-string-weights", "mle-with-array-weights", "upper-case-MLE"]


def _fit(fam, start_params, data, fixed=None, form=0):
    cls = S.classes()[fam]
    kw = dict(start_params or {})
    for k, v in (fixed or {}).items():
        kw.pop(k, None)
        kw[f"f_{k}"] = v
    if fam in ("gamma", "sc_gengamma") and "loc" not in (fixed or {}):
        kw.pop("loc", None)
        kw["f_loc"] = 0.0
    d = cls(**kw)
    _LAST.clear()
    # the sample as the caller may hold it: 1-D array, list, tuple ("array_like").  (2-D holders of a 1-D sample - a column
    # (n, 1), a row (1, n) - are NOT driven: on the unchanged tree several families refuse them and others (Gumbel,
    # Rayleigh, von Mises) fit something else, so they are outside the domain the fit functions serve; see DESIGN 10)
    shape_form = ["array", "list", "array", "tuple"][(form * 5 + len(data)) % 4]
    if shape_form == "list":
        data = list(map(float, data))
    elif shape_form == "tuple":
        data = tuple(map(float, data))
    elif shape_form == "column":
        data = np.asarray(data, float).reshape(-1, 1)
    elif shape_form == "row":
        data = np.asarray(data, float).reshape(1, -1)
    _LAST["data_form"] = shape_form
    # every documented way to ask for maximum likelihood ("weights: ... Ignored otherwise")
    f = FORMS[form % len(FORMS)]
    if f == "default":
        d.fit(data)
    elif f == "positional-mle":
        d.fit(data, "mle")
    elif f == "keyword-mle-weights-none":
        d.fit(data, method="mle", weights=None)
    elif f == "mle-with-string-weights":
        d.fit(data, "mle", ["linear", "quadratic", "cubic"][form % 3])
    elif f == "mle-with-array-weights":
        d.fit(data, method="mle", weights=np.linspace(0.5, 2.0, int(np.size(data))))
    else:
        d.fit(data, "MLE")
    return d, dict(_LAST)


def run_case(case, ctx):
    fam, gen, n, cfac = case["fam"], case["gen"], case["n"], case["c"]
    rng = np.random.default_rng(case["sub"])
    ctx.cls("family", fam)
    ctx.cls("start", case["start"])
    ctx.cls("n", n)
    u = rng.random(n)
    with np.errstate(all="ignore"):
        x = np.asarray(R.icdf(fam, u, **gen), float)
    x = x[np.isfinite(x)]
    if case.get("ties"):
        # measurements rounded to a resolution: many repeated observations (every one of them counts in the likelihood)
        # (a resolution of about a third of the spread or finer - rounding a narrow sample to the magnitude of its median
        #  collapsed it onto one value: a degenerate data set, not a test of the fit)
        res = 10.0 ** math.floor(math.log10(max(float(np.std(x)), 1e-9)) - 0.5)
        x = np.round(x / res) * res
        if R.SUPPORT[fam] == "pos":
            x = np.maximum(x, res)
        ctx.cls("data", "rounded-with-ties")
    names = R.PARAMS[fam]
    if case["start"] == "default":
        start = None
    elif case["start"] == "generating":
        start = dict(gen)
    else:
        start = {}
        for k in names:
            kind = S.KIND[fam][k]
            f = float(np.exp(rng.uniform(math.log(0.5), math.log(2.0))))
            start[k] = gen[k] * f if kind != "loc" else gen[k] + (f - 1.0) * max(1.0, abs(gen[k])) * 0.3
        # user start values are meant to be plausible: a start under which the data are impossible (a location above
        # the smallest observation: log-likelihood -inf) is replaced by the generating values
        if not np.isfinite(loglik(fam, x, start)):
            start = dict(gen)
            ctx.count("c12.infeasible-perturbed-start-replaced")
    ctx.sig = f"{fam}|{[round(v, 5) for v in gen.values()]}|{n}|{case['start']}|{round(cfac, 4)}"
    slack = 1e-5 * n + 1e-3
    tau = 0.05 + 1e-4 * n
    if fam in ("gengamma", "sc_gengamma", "expweib"):
        # two shape parameters and a scale: the likelihood has a ridge along which the optimiser stops at slightly different
        # places for x and c*x (0.17 seen on rounded data, n = 300); a wrong start, a dropped observation or a
        # shared keyword dict costs several units
        tau = 0.5 + 2e-3 * n  # (the ridge gap grows with n: 0.17 at n = 300, 0.57 at n = 1000)
    info = {"family": fam, "generating": gen, "n": n, "start_kind": case["start"]}

    if case.get("prelude"):
        # call history: another instance of the family was fitted with FIXED parameters earlier in this process
        # (what every predefined conditional model does); it must not influence the fit that is judged
        ctx.cls("history", "after-a-fit-with-fixed-parameters")
        others = [k for k in names]
        rng2 = np.random.default_rng(case["sub"] + 1)
        sub = [k for k in others if rng2.random() < 0.5] or [others[0]]
        if len(sub) == len(others):
            sub = sub[:-1]
        if sub:
            alt = _draw(rng2, fam)
            try:
                with M.quiet():
                    S.classes()[fam](**{f"f_{k}": alt[k] for k in sub}).fit(x)
                ctx.count("c12.prelude-fit-with-fixed-parameters")
            except Exception:  # noqa: BLE001 - the prelude is only history
                ctx.count("c12.prelude-failed")
    fixed_names = case.get("fixed") or []
    fixed1 = {k: gen[k] for k in fixed_names}
    ctx.cls("n_fixed", len(fixed_names))
    if fixed_names:
        info["fixed"] = fixed1
    form = int(case["sub"]) % 7  # (7 and 6 are coprime: forms and the string weight rotate independently)
    ctx.cls("call-form", FORMS[form % len(FORMS)])
    d1, obs1 = _fit(fam, start, x, fixed1, form)
    if obs1.get("after") is None:
        ctx.check("c12.fit-observed-state", False, f"{fam}: MLE fit was not observed by the monitor or raised", exc=repr(obs1.get("exc")), **info)
        return
    th1, st1 = obs1["after"], obs1["start"]
    ctx.sample = {"family": fam, "generating": gen, "n": n, "start": st1, "fitted": th1, "c": cfac}
    ctx.nontrivial = any(th1[k] != st1[k] for k in names)
    fin = all(np.isfinite(float(th1[k])) for k in names)
    adm = fin and R.admissible(fam, {k: float(th1[k]) for k in names})
    ctx.check("c12.finite-admissible", adm, f"{fam}: MLE estimates are not finite and admissible", fitted=th1, **info)
    if not adm:
        return
    ll_fit = loglik(fam, x, th1)
    ll_start = loglik(fam, x, st1)
    ll_gen = loglik(fam, x, gen)
    mech = _lnnf_mech(fam, x, th1, fixed1)
    if np.isfinite(ll_start):
        ctx.check("c12.not-lower-than-start", ll_fit >= ll_start - slack, f"{fam}: log-likelihood after MLE fitting is lower than at the start values", mech, ll_fit=ll_fit, ll_start=ll_start, start=st1, fitted=th1, **info)
    else:
        ctx.count("c12.start-inadmissible-for-data")
    mech_g = mech
    if mech_g is None and not (ll_fit >= ll_gen - slack):
        mech_g = _weibull3_mech(fam, [(x, th1)], slack)
    ctx.check("c12.not-lower-than-generating", ll_fit >= ll_gen - slack, f"{fam}: log-likelihood after MLE fitting is lower than under the generating parameters", mech_g, ll_fit=ll_fit, ll_generating=ll_gen, fitted=th1, start=st1, **info)

    # ---- scale equivariance ------------------------------------------
    if fam == "vonmises":
        return
    x2 = cfac * x
    start2 = None if start is None else scale_params(fam, start, cfac)
    d2, obs2 = _fit(fam, start2, x2, {k: scale_params(fam, gen, cfac)[k] for k in fixed_names}, form + 1)
    if obs2.get("after") is None:
        ctx.check("c12.fit-observed-state", False, f"{fam}: MLE fit of scaled data raised", exc=repr(obs2.get("exc")), **info)
        return
    th2 = obs2["after"]
    if not (all(np.isfinite(float(th2[k])) for k in names) and R.admissible(fam, {k: float(th2[k]) for k in names})):
        ctx.check("c12.finite-admissible", False, f"{fam}: MLE estimates of scaled data are not finite and admissible", fitted=th2, c=cfac, **info)
        return
    if fam in CLOSED_FORM:
        want = scale_params(fam, th1, cfac)
        ok = all(abs(float(th2[k]) - float(want[k])) <= 1e-9 * max(1.0, abs(float(want[k]))) for k in names)
        ctx.check("c12.equivariant-closed-form", ok, f"{fam}: closed-form estimate is not scale-equivariant", fit_x=th1, fit_cx=th2, expected=want, c=cfac, **info)
    a = loglik(fam, x2, scale_params(fam, th1, cfac)) - loglik(fam, x2, th2)
    b = loglik(fam, x, scale_params(fam, th2, 1.0 / cfac)) - ll_fit
    if not (np.isfinite(a) and np.isfinite(b)):
        ctx.count("c12.equivariance-trivial-infinite-likelihood")
        return
    ctx.check(
        "c12.equivariant-likelihood",
        a <= tau and b <= tau,
        f"{fam}: MLE is not scale-equivariant (one fit is beaten by the other one rescaled)",
        None if (a <= tau and b <= tau) else _weibull3_mech(fam, [(x, th1), (x2, th2)], slack),
        c=cfac,
        fit_x=th1,
        fit_cx=th2,
        gain_of_rescaled_fit_x_on_cx=a,
        gain_of_rescaled_fit_cx_on_x=b,
        tau=tau,
        **info,
    )


def _lnnf_mech(fam, x, th, fixed=None):
    """Predicate of the known finding: the 'MLE' of LogNormalNormFit is exactly the moment estimator
    (every free parameter equals its sample moment, every fixed one its fixed value)."""
    if fam != "lnnf":
        return None
    fixed = fixed or {}
    want = {"mu_norm": fixed.get("mu_norm", np.mean(x)), "sigma_norm": fixed.get("sigma_norm", np.std(x, ddof=1))}
    if th["mu_norm"] == want["mu_norm"] and th["sigma_norm"] == want["sigma_norm"] and len(fixed) < 2:
        return "lnnf-mle-is-moment-estimator"
    return None


def _weibull3_mech(fam, fits, slack):
    """Predicate of the known finding '3-parameter Weibull MLE stops before a stationary point':
    the location is free and either the fitted shape is below one (the 3-parameter likelihood is unbounded
    there, no maximiser exists) or re-fitting *started at the returned estimate* raises the log-likelihood
    by more than the slack (the Nelder-Mead search had not converged)."""
    if fam != "weibull":
        return None
    cls = S.classes()[fam]
    for data, th in fits:
        if float(th["beta"]) < 1.0:
            return "weibull-3p-mle-not-converged"
        with M.quiet():
            d = cls(**{k: float(v) for k, v in th.items()})
            if d.f_gamma is not None:
                return None
            try:
                d.fit(data)
            except Exception:  # noqa: BLE001
                continue
        if loglik(fam, data, d.parameters) - loglik(fam, data, th) > slack:
            return "weibull-3p-mle-not-converged"
    return None
