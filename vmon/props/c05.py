"""C05 - every distribution's cdf / icdf / pdf follow the documented formula and each other."""
import math

import warnings

import numpy as np

from .. import distmon
from .. import monitors as M
from .. import refmodel as R
from .. import specs as S

ID = "C05"
LEVEL = "exploration"
RULE = (
    "case = (family, parameter vector drawn log-uniformly over the wide ranges of specs.WIDE, input form); "
    "the real cdf/pdf/icdf are called on a quantile-spanning grid (1e-12..1-1e-12, support boundary, 0, negatives) "
    "as float ndarray, list, int ndarray and Python scalars, with stored and with explicitly passed parameters "
    "(each single parameter, all parameters, positional). Every call is compared by the distribution monitor with "
    "the reference formula; relations (monotone, range, round trips, derivative, explicit==instance bitwise, "
    "array_like forms agree) are checked per case. Non-trivial = at least 20 grid points with cdf strictly inside (0,1); "
    "distinct = distinct (family, parameters, form) signature."
    ' Also: mixed positional/keyword parameter forms with None placeholders; explicit parameter values typed int / numpy int / int array.'
)
ASSUMPTIONS = [
    "reference formulas of vmon/refmodel.py (audited against scipy.stats called directly: selftest/ref_audit.py)",
    "numpy, scipy.special",
    "von Mises compared on [mu-pi, mu+pi] for kappa < 50 (scipy switches to a normal approximation with abs error ~2e-7 above)",
    "GeneralizedGamma docstring exp[-(lambda x^c)] read as exp[-(lambda x)^c] (Ochi 1992; the literal form does not normalise)",
]
REQUIRED = ["dist.compare", "rel.monotone", "rel.roundtrip", "rel.explicit-eq-instance", "rel.forms", "rel.history-eq-fresh"]
CASE_TIMEOUT_S = 120

# absolute floor of a probability computed in double precision (8 eps); a circular cdf (series) is
# accurate only absolutely, not relatively, in its lower tail
FLOOR = {False: 8 * 2.220446049250313e-16, True: 1e-13}

QS = np.array(
    [1e-12, 1e-9, 1e-6, 1e-4, 1e-3, 0.01, 0.03, 0.1, 0.2, 0.3, 0.4, 0.5, 0.6, 0.7, 0.8, 0.9, 0.97, 0.99, 0.999, 1 - 1e-4, 1 - 1e-6, 1 - 1e-9, 1 - 1e-12]
)


def gen_cases(tier, seed):
    rng = np.random.default_rng([seed, 5])
    per_fam = 24 if tier == "quick" else 600
    cases = []
    for fam in S.ALL_FAMS:
        for k in range(per_fam):
            p = S.draw_params(rng, fam, S.WIDE)
            if k % 6 == 0:
                p = S.draw_params(rng, fam, S.RANGE)
            other = S.draw_params(rng, fam, S.RANGE)
            cases.append({"fam": fam, "params": p, "other": other, "sub": int(rng.integers(1 << 30))})
    # locations far from the origin (a mean direction recorded on [0, 2 pi), an offset of several scales)
    lrng = np.random.default_rng([seed, 5, 8])
    for fam, loc in (("vonmises", "mu"), ("normal", "mu"), ("gumbel_r", "loc"), ("weibull", "gamma")):
        if fam not in S.ALL_FAMS:
            continue
        for v in (3.5, 4.0, -4.5, 6.0, 9.0, -12.0):
            if fam == "weibull" and v < 0:
                continue
            p = S.draw_params(lrng, fam, S.RANGE)
            p[loc] = float(v)
            cases.append({"fam": fam, "params": p, "other": S.draw_params(lrng, fam, S.RANGE), "sub": int(lrng.integers(1 << 30))})
    cases.append({"repo_tests": ["tests/test_distributions.py", "tests/comparison-to-virocon-v1/test_distributions.py"], "cost": 20})
    return cases


def install():
    distmon.install()


def _mk(fam, p):
    cls = S.classes()[fam]
    return cls(**p)


def _nan_equal(a, b):
    a, b = np.asarray(a, float), np.asarray(b, float)
    if a.shape != b.shape:
        return False
    return bool(np.all((a == b) | (np.isnan(a) & np.isnan(b))))


def run_case(case, ctx):
    if "repo_tests" in case:
        from .. import repotests

        ctx.cls("family", "repository-tests")
        repotests.run(ctx, case["repo_tests"])
        return
    fam, p = case["fam"], case["params"]
    rng = np.random.default_rng(case["sub"])
    ctx.cls("family", fam)
    d = _mk(fam, p)
    with np.errstate(all="ignore"):
        xq = np.asarray(R.icdf(fam, QS, **p), float)
        xu = np.asarray(R.isf(fam, 1 - QS[QS > 0.5], **p), float)
        xq[QS > 0.5] = xu
    xq = xq[np.isfinite(xq)]
    lo = {"weibull": p.get("gamma", 0.0), "gamma": p.get("loc", 0.0), "rayleigh": p.get("loc", 0.0), "sc_gengamma": p.get("loc", 0.0)}.get(fam, 0.0)
    sc = float(np.nanmedian(np.abs(np.diff(xq)))) if xq.size > 3 else 1.0
    extra = [lo, 0.0, lo - 1.0, -1.0, lo - 1e-9, lo + 1e-12 * max(1.0, abs(lo))]
    if R.SUPPORT[fam] == "real":
        extra = [0.0, -1.0, 1.0]
    if fam == "vonmises":
        xq = np.clip(xq, p["mu"] - math.pi + 1e-9, p["mu"] + math.pi - 1e-9)
        extra = [p["mu"], p["mu"] - 3.0, p["mu"] + 3.0]
    x = np.unique(np.concatenate([xq, np.asarray(extra, float), rng.uniform(xq.min(), xq.max(), 12) if xq.size else []]))
    x = x[np.isfinite(x)]
    ctx.sample = {"family": fam, "params": p, "n_grid": int(x.size), "x_first": x[:3].tolist(), "x_last": x[-3:].tolist()}

    # ---- plain evaluation (the monitor compares each with the reference) ----
    F = np.asarray(d.cdf(x), float)
    f = np.asarray(d.pdf(x), float)
    inner = int(np.sum((F > 0) & (F < 1)))
    ctx.nontrivial = inner >= 20
    ctx.sig = f"{fam}:{[round(float(v), 6) for v in p.values()]}"
    ctx.notes["inner_points"] = inner

    # range / monotone
    ctx.check("rel.range", bool(np.all((F >= 0) & (F <= 1))), f"{fam}.cdf outside [0,1]", family=fam, params=p)
    dF = np.diff(F)
    ctx.check("rel.monotone", bool(np.all(dF >= -1e-15)), f"{fam}.cdf decreasing", family=fam, params=p, worst=float(dF.min()) if dF.size else 0)
    ctx.check("rel.pdf-nonneg", bool(np.all((f >= 0) | np.isnan(f)) and not np.any(np.isnan(f))), f"{fam}.pdf negative or NaN", family=fam, params=p)
    if R.SUPPORT[fam] == "pos":
        below = x < lo
        ctx.check(
            "rel.pdf-zero-off-support",
            bool(np.all(f[below] == 0) and np.all(F[below] == 0)),
            f"{fam}: pdf/cdf not zero below the support",
            family=fam,
            params=p,
        )

    # ---- round trips --------------------------------------------------
    # representability: a quantile cannot be resolved finer than one ulp of x; the tolerance in p
    # is the reference cdf's own change over +-2 ulp (covers non-zero locations, infinite densities)
    def repr_tol(xv):
        xv = np.asarray(xv, float)
        up = np.nextafter(np.nextafter(xv, np.inf), np.inf)
        dn = np.nextafter(np.nextafter(xv, -np.inf), -np.inf)
        with np.errstate(all="ignore"):
            a = np.asarray(R.cdf(fam, up, **p), float)
            b = np.asarray(R.cdf(fam, dn, **p), float)
        return 2 * np.abs(a - b)

    m = (F > 1e-13) & (F < 1 - 1e-13)
    if np.any(m):
        xx = x[m]
        back = np.asarray(d.icdf(F[m]), float)
        Fb = np.asarray(d.cdf(back), float)
        c = F[m]
        tolp = 1e-9 * np.minimum(c, 1 - c) + repr_tol(xx) + repr_tol(back) + FLOOR[fam == 'vonmises']
        ok = np.abs(Fb - c) <= tolp
        ctx.check(
            "rel.roundtrip",
            bool(np.all(ok)),
            f"{fam}: cdf(icdf(cdf(x))) != cdf(x)",
            family=fam,
            params=p,
            x=float(xx[np.argmin(ok)]),
            p=float(c[np.argmin(ok)]),
            back=float(Fb[np.argmin(ok)]),
        )
        # x-space where the density makes it well-conditioned
        with np.errstate(all="ignore"):
            pdf_ref = np.asarray(R.pdf(fam, xx, **p), float)
            tolx = 1e-8 * np.abs(xx) + (1e-9 * np.minimum(c, 1 - c) + FLOOR[fam == 'vonmises']) / np.maximum(pdf_ref, 1e-300) + 8 * np.spacing(np.abs(xx))
        okx = (np.abs(back - xx) <= tolx) | ~np.isfinite(tolx)
        ctx.check(
            "rel.roundtrip-x",
            bool(np.all(okx)),
            f"{fam}: icdf(cdf(x)) != x",
            family=fam,
            params=p,
            x=float(xx[np.argmin(okx)]),
            back=float(back[np.argmin(okx)]),
        )
    pp = QS[(QS > 1e-10) & (QS < 1 - 1e-10)]
    xs = np.asarray(d.icdf(pp), float)
    Fx = np.asarray(d.cdf(xs), float)
    tolp = 1e-9 * np.minimum(pp, 1 - pp) + repr_tol(xs) + FLOOR[fam == 'vonmises']
    ok = np.abs(Fx - pp) <= tolp
    # (a quantile below the normal range of doubles - 1e-356 for a generalised gamma with m = 0.11, c = 0.23 at p = 1e-9 -
    #  comes back as 0 or a subnormal: not representable, not judged)
    ok |= np.abs(xs - float(p.get("gamma", p.get("loc", 0.0)) if fam != "vonmises" else 0.0)) < 1e-290
    ctx.check(
        "rel.roundtrip-p",
        bool(np.all(ok)),
        f"{fam}: cdf(icdf(p)) != p",
        family=fam,
        params=p,
        p=float(pp[np.argmin(ok)]),
        got=float(Fx[np.argmin(ok)]),
    )

    # ---- pdf = d cdf / dx (central difference of the real cdf, local step) ----
    mid = x[(F > 1e-3) & (F < 1 - 1e-3)]
    if mid.size >= 3:
        spread = float(mid.max() - mid.min()) or 1.0
        if R.SUPPORT[fam] == "pos":
            local = np.minimum(mid - lo, spread)
        else:
            local = np.full(mid.shape, spread)
        keep = (local > 0) & (1e-5 * local > 1e4 * np.spacing(np.abs(mid)))
        xm, h = mid[keep], 1e-5 * local[keep]
        if xm.size:
            num = (np.asarray(d.cdf(xm + h), float) - np.asarray(d.cdf(xm - h), float)) / (2 * h)
            an = np.asarray(d.pdf(xm), float)
            tol = 1e-4 * np.abs(an) + 2e-15 / h
            okd = np.abs(num - an) <= tol
            ctx.check(
                "rel.pdf-is-derivative",
                bool(np.all(okd)),
                f"{fam}: pdf is not the derivative of cdf",
                family=fam,
                params=p,
                x=float(xm[np.argmin(okd)]),
                numeric=float(num[np.argmin(okd)]),
                pdf=float(an[np.argmin(okd)]),
            )

    # ---- explicit parameters == instance with those parameters (bitwise) ----
    names = R.PARAMS[fam]
    other = case["other"]
    base = _mk(fam, other)
    default = S.classes()[fam]()
    probs = QS[3:-3]
    for meth, arg in (("cdf", x), ("pdf", x), ("icdf", probs)):
        # all parameters explicit, by keyword and positionally
        want = getattr(d, meth)(arg)
        got_kw = getattr(default, meth)(arg, **p)
        got_pos = getattr(base, meth)(arg, *[p[n] for n in names])
        ctx.check(
            "rel.explicit-eq-instance",
            _nan_equal(got_kw, want) and _nan_equal(got_pos, want),
            f"{fam}.{meth}: all parameters explicit != instance built with them",
            mechanism=_mech_explicit(fam, meth, arg, got_kw, {**p, "sigma": default.parameters.get("sigma")}) if fam == "normal" else None,
            family=fam,
            params=p,
            method=meth,
        )
        for n in names:
            if fam == "lnnf":
                # documented: mu_norm and sigma_norm must be passed both or not at all
                try:
                    getattr(base, meth)(arg, **{n: p[n]})
                    ctx.check("rel.lnnf-single-rejected", False, "lnnf: single explicit parameter accepted", family=fam)
                except RuntimeError:
                    ctx.check("rel.lnnf-single-rejected", True)
                continue
            mixed = dict(other)
            mixed[n] = p[n]
            want1 = getattr(_mk(fam, mixed), meth)(arg)
            got1 = getattr(base, meth)(arg, **{n: p[n]})
            ctx.check(
                "rel.explicit-eq-instance",
                _nan_equal(got1, want1),
                f"{fam}.{meth}: explicit {n} != instance built with it",
                mechanism=_mech_explicit(fam, meth, arg, got1, dict(other)) if (fam == "normal" and n == "sigma") else None,
                family=fam,
                parameter=n,
                method=meth,
                value=p[n],
                other=other,
            )

    # ---- mixed forms: the first k parameters positionally (values or None placeholders), the rest by keyword ----
    if fam != "lnnf" and len(names) >= 2:
        for meth, arg in (("cdf", x), ("pdf", x), ("icdf", probs)):
            want = getattr(d, meth)(arg)
            for k in range(1, len(names)):
                got = getattr(base, meth)(arg, *[p[n] for n in names[:k]], **{n: p[n] for n in names[k:]})
                ctx.check("rel.explicit-eq-instance", _nan_equal(got, want), f"{fam}.{meth}: first {k} parameter(s) positional, the rest by keyword != instance built with them", family=fam, params=p, method=meth)
                # None placeholders keep the instance's value
                last = names[-1]
                mixed = dict(other)
                mixed[last] = p[last]
                got2 = getattr(base, meth)(arg, *([None] * k), **{last: p[last]}) if k < len(names) - 0 and last not in names[:k] else None
                if got2 is not None:
                    ctx.check("rel.explicit-eq-instance", _nan_equal(got2, getattr(_mk(fam, mixed), meth)(arg)), f"{fam}.{meth}: {k} positional None placeholder(s) and {last} by keyword != instance built with it", family=fam, parameter=last, method=meth, value=p[last], other=other)

    # ---- a parameter value outside the admissible region (what an arbitrary dependence function may hand over): whatever
    #      the family returns for it (0, nan), the scalar form and the array form return the same ----
    if fam != "lnnf":
        x_mid = float(np.asarray(x, float)[len(x) // 2])
        for n in names:
            if S.KIND[fam][n] != "pos":
                continue
            bad = -abs(float(other[n])) - 0.5
            for meth, a0 in (("pdf", x_mid), ("cdf", x_mid), ("icdf", 0.4)):
                try:
                    with np.errstate(all="ignore"), warnings.catch_warnings():
                        warnings.simplefilter("ignore")
                        r_s = np.asarray(getattr(base, meth)(a0, **{n: bad}), float)
                        r_v = np.asarray(getattr(base, meth)(np.array([a0, a0]), **{n: bad}), float)
                except Exception as e:  # noqa: BLE001
                    ctx.count(f"rel.inadmissible-parameter-rejected[{type(e).__name__}]")
                    continue
                same = r_v.shape == (2,) and r_s.ndim == 0 and bool((r_s == r_v[0]) or (np.isnan(r_s) and np.isnan(r_v[0])))
                ctx.check("rel.forms", same, f"{fam}.{meth}: with an inadmissible {n} the scalar form and the array form return different values", family=fam, parameter=n, value=bad, scalar=float(r_s) if r_s.ndim == 0 else None, array=r_v[:1])

    # ---- an instance built with a FIXED parameter, evaluated with that parameter passed explicitly (what a conditional
    #      distribution does on every call): the explicit value is the one in force, as for a plain instance ----
    if fam != "lnnf":
        for n in names:
            try:
                fixed_inst = S.classes()[fam](**{f"f_{n}": other[n]}, **{k: v for k, v in other.items() if k != n})
            except TypeError:
                continue
            mixed = dict(other)
            mixed[n] = p[n]
            ref_inst = _mk(fam, mixed)
            for meth, arg in (("cdf", x), ("pdf", x), ("icdf", probs)):
                got = getattr(fixed_inst, meth)(arg, **{n: p[n]})
                ctx.check("rel.explicit-eq-instance", _nan_equal(got, getattr(ref_inst, meth)(arg)), f"{fam}.{meth}: explicit {n} on an instance built with f_{n} != instance built with the explicit value", family=fam, parameter=n, method=meth, value=p[n], fixed_at=other[n])

    # ---- integer-typed explicit parameter values (Python int, numpy integer, integer array) == the same value as float ----
    if fam != "lnnf":
        for n in names:
            vi = int(round(other[n])) if S.KIND[fam][n] != "pos" else max(1, int(round(other[n])))
            if fam == "vonmises" and n == "mu":
                vi = int(np.clip(vi, -3, 3))
            alt = dict(other)
            alt[n] = float(vi)
            if vi == 1:
                vi, alt[n] = 2, 2.0  # (1 is the value at which int and float arithmetic agree most often)
            if not R.admissible(fam, alt):
                continue
            with np.errstate(all="ignore"):
                xa = np.asarray(R.icdf(fam, np.array([0.2, 0.5, 0.8]), **alt), float)
            if not np.all(np.isfinite(xa)):
                continue
            inst = _mk(fam, alt)
            for meth, arg in (("cdf", xa), ("pdf", xa), ("icdf", np.array([0.2, 0.5, 0.8]))):
                want = np.asarray(getattr(inst, meth)(arg), float)
                for tname, tv in (("int", int(vi)), ("np.int64", np.int64(vi)), ("int-array", np.full(3, vi, dtype=np.int64))):
                    with np.errstate(all="ignore"), warnings.catch_warnings():
                        warnings.simplefilter("ignore")
                        got = np.asarray(getattr(base, meth)(arg, **{n: tv}), float)
                    ok_ = got.shape == want.shape and bool(np.allclose(got, want, rtol=1e-12, atol=0, equal_nan=False))
                    ctx.check("rel.explicit-eq-instance", ok_, f"{fam}.{meth}: explicit {n} given as {tname} != the same value as float", family=fam, parameter=n, value=vi, got=got, want=want)

    # ---- history: evaluate, change the parameters of the SAME object (assignment, then a fit), evaluate again ----
    hist = _mk(fam, p)
    hist.cdf(x)
    hist.icdf(probs)
    for n in names:
        setattr(hist, n, other[n])
    ctx.check("rel.history-parameters-assigned", all(hist.parameters[n] == other[n] for n in names), f"{fam}: assigned parameter values are not reported by .parameters", family=fam)
    with np.errstate(all="ignore"):
        xo = np.asarray(R.icdf(fam, QS[3:-3], **other), float)
    xo = xo[np.isfinite(xo)]
    if xo.size:
        got_h = np.asarray(hist.cdf(xo), float)  # judged by the monitor against the CURRENT parameters
        fresh = np.asarray(_mk(fam, other).cdf(xo), float)
        ctx.check("rel.history-eq-fresh", _nan_equal(got_h, fresh), f"{fam}: evaluation after a parameter change differs from a fresh instance with those parameters (stale state)", family=fam, before=p, after=other)
        hist.pdf(xo)
        hist.icdf(probs)
    if fam in ("lognormal", "normal", "lnnf", "rayleigh", "gumbel_r"):
        data = np.asarray(R.icdf(fam, np.random.default_rng(case["sub"]).random(300), **p), float)
        data = data[np.isfinite(data)]
        try:
            hist.fit(data)
            cur = dict(hist.parameters)
            if R.admissible(fam, {k: float(v) for k, v in cur.items()}):
                xf = np.asarray(R.icdf(fam, QS[5:-5], **{k: float(v) for k, v in cur.items()}), float)
                hist.cdf(xf)  # monitor: against the fitted parameters
                hist.pdf(xf)
                ctx.check("rel.history-eq-fresh", _nan_equal(hist.cdf(xf), _mk(fam, {k: float(v) for k, v in cur.items()}).cdf(xf)) or bool(np.allclose(hist.cdf(xf), _mk(fam, {k: float(v) for k, v in cur.items()}).cdf(xf), rtol=1e-12, atol=0)), f"{fam}: evaluation after a fit differs from a fresh instance with the fitted parameters", family=fam, fitted=cur)
        except Exception as e:  # noqa: BLE001
            ctx.count("rel.history-fit-failed")

    # ---- array_like forms ---------------------------------------------
    xi = np.unique(np.round(x[(x > -1e6) & (x < 1e6)]))[:12]
    if xi.size == 0:
        xi = np.array([0.0, 1.0, 2.0])
    for meth, arr in (("cdf", x[:: max(1, x.size // 12)]), ("pdf", x[:: max(1, x.size // 12)]), ("icdf", probs[::2])):
        ref_arr = np.asarray(getattr(d, meth)(np.asarray(arr, float)), float)
        forms = {"list": list(map(float, arr)), "tuple": tuple(map(float, arr))}
        for fname, val in forms.items():
            _form(ctx, d, fam, meth, fname, val, ref_arr, p)
        # python scalars, one at a time
        sc_ok, sc_err = True, None
        for j in (0, len(arr) // 2, len(arr) - 1):
            try:
                r = getattr(d, meth)(float(arr[j]))
                if not _nan_equal(np.asarray(r, float).reshape(()), ref_arr[j].reshape(())):
                    rr = float(np.asarray(r, float))
                    if not (abs(rr - ref_arr[j]) <= 1e-12 * abs(ref_arr[j]) + 1e-300):
                        sc_ok, sc_err = False, (float(arr[j]), rr, float(ref_arr[j]))
            except Exception as e:  # noqa: BLE001
                sc_ok, sc_err = False, f"{type(e).__name__}: {e}"
        ctx.check("rel.forms", sc_ok, f"{fam}.{meth}: scalar argument disagrees with array", family=fam, method=meth, detail=sc_err)
        # 0-d and length-1 arrays
        for fname, val, want in (("0-d ndarray", np.asarray(float(arr[1])), ref_arr[1]), ("length-1 ndarray", np.array([float(arr[1])]), ref_arr[1:2])):
            try:
                r0 = np.asarray(getattr(d, meth)(val), float)
                with np.errstate(all="ignore"):
                    ok0 = r0.size == 1 and (bool(np.all(np.abs(r0.ravel() - np.ravel(want)) <= 1e-12 * np.abs(np.ravel(want)) + 1e-300)) or bool(np.all(np.isnan(r0.ravel()) & np.isnan(np.ravel(want)))) or bool(np.all(r0.ravel() == np.ravel(want))))  # (equal infinities: a density that is infinite at the location)
                ctx.check("rel.forms", ok0, f"{fam}.{meth}: {fname} argument disagrees with the array", family=fam, method=meth, form=fname)
            except Exception as e:  # noqa: BLE001
                ctx.check("rel.forms", False, f"{fam}.{meth}: {fname} argument raised {type(e).__name__}", family=fam, method=meth, form=fname, message=str(e)[:120])
        if meth != "icdf":
            ref_i = np.asarray(getattr(d, meth)(xi.astype(float)), float)
            _form(ctx, d, fam, meth, "int-ndarray", xi.astype(np.int64), ref_i, p)
            _form(ctx, d, fam, meth, "int-list", [int(v) for v in xi], ref_i, p)


def _form(ctx, d, fam, meth, fname, val, ref_arr, p):
    try:
        got = np.asarray(getattr(d, meth)(val), float)
        ok = got.shape == ref_arr.shape and bool(
            np.all((np.abs(got - ref_arr) <= 1e-12 * np.abs(ref_arr) + 1e-300) | (np.isnan(got) & np.isnan(ref_arr)) | (got == ref_arr))
        )
        ctx.check(
            "rel.forms",
            ok,
            f"{fam}.{meth}: {fname} argument disagrees with float ndarray",
            family=fam,
            method=meth,
            form=fname,
            params=p,
        )
    except Exception as e:  # noqa: BLE001
        mech = None
        if fam == "expweib" and meth == "pdf" and isinstance(e, TypeError) and fname in ("list", "tuple", "int-list"):
            mech = "expweib-pdf-rejects-sequences"
        ctx.check(
            "rel.forms",
            False,
            f"{fam}.{meth}: {fname} argument (array_like) raised {type(e).__name__}",
            mechanism=mech,
            family=fam,
            method=meth,
            form=fname,
            message=str(e)[:200],
        )


def _mech_explicit(fam, meth, arg, got, params_with_stored_sigma):
    """Predicate of the (fixed) finding 'Normal ignores an explicit sigma': the call's result is
    bitwise the result of an instance that keeps the *stored* sigma."""
    try:
        alt = getattr(_mk(fam, params_with_stored_sigma), meth)(arg)
        if _nan_equal(got, alt):
            return "normal-explicit-sigma-ignored"
    except Exception:  # noqa: BLE001
        pass
    return None
