"""C16 - transformed models are exact push-forwards; Monte-Carlo conditionals match them."""
import math
import warnings

import numpy as np
from scipy import integrate
from scipy import special as sp

from .. import monitors as M
from .. import refmodel as R
from .. import specs as S
from .. import stats

ID = "C16"
LEVEL = "exploration"
G = 9.81
FACTOR = 2 * math.pi / G
EPS = np.finfo(float).eps
RULE = (
    "cases: (transform) the three shipped transformation pairs on log-uniform points of (1e-3,1e2)^2 and the predefined Jacobians against numerical Jacobians; "
    "(model) Hs-steepness models of the predefined structure (exponentiated-Weibull Hs, exponentiated-Weibull steepness with limited-growth / linear dependence, "
    "Windmeier and non-zero variants with fitted-like and random coefficients): pdf against the exact push-forward of the REFERENCE density, cdf and empirical_cdf "
    "against the exact cdf (1-D quadrature), draw_sample against the inverse transform of the base sample it drew; (conditional) conditional_sample / conditional_cdf / "
    "conditional_icdf of Tz given Hs (closed form: F(v|h) = 1 - F_s|h(2 pi h / (g v^2))) and of Hs given Tz (exact by quadrature) for conditioning values from the 1e-6 to "
    "the 1-1e-8 quantile, judged with DKW bands at 1e-12; (iform) transformed IFORM contours: every point against the exact Rosenblatt image within the DKW band of the "
    "documented sample size, and two constructions with the same random_state bitwise equal. Non-trivial = conditioning value outside the central 90% or a statistical "
    "comparison with n >= 1e5; distinct = (model coefficients, operation, conditioning value, seed)."
    ' Also: seeded samples above 1e6 rows; cache-use + parameter-change history; pooled conditional samples of 1, 2, 4, 10 draws per call; empirical_cdf between two seeded contours.'
)
ASSUMPTIONS = [
    "exact conditional and joint laws of the Hs-steepness structure from the reference model (refmodel.py) and scipy.integrate.quad",
    "DKW / Naaman bounds at error probability 1e-12 for the sample sizes the code is documented to draw",
    "round-trip tolerance of s_d_to_hs_tz derived from the cancellation in sqrt(16 d^2 s^2 + f^2) - f: rel 1e-12 + 8 eps (1 + f^2 / (16 d^2 s^2))",
    "the guarded probe conditional_sample_support reports x_max / f_max; it is used to attribute a truncated sample to the support search, the verdict itself compares the sample with the exact law",
]
REQUIRED = ["c16.roundtrip", "c16.jacobian", "c16.pdf-pushforward", "c16.sample-is-inverse-of-base", "c16.conditional-sample", "c16.iform-point", "c16.iform-reproducible"]
CASE_TIMEOUT_S = 1500
WATCHDOG_S = {"quick": 1800, "thorough": 7200}
SHARDS_PER_WORKER = 6

PROBES = []
BASE_SAMPLES = []


def _sink(name, data):
    if name == "conditional_sample_support":
        PROBES.append(dict(data))


def _post_base_draw(call):
    if M.current() is None or call.exc is not None:
        return
    BASE_SAMPLES.append(np.array(call.result, float, copy=True))


_DONE = [False]


def install():
    from virocon import _verif

    _verif.set_sink(_sink)
    if _DONE[0]:
        return
    _DONE[0] = True
    from virocon import GlobalHierarchicalModel

    M.wrap(GlobalHierarchicalModel, "draw_sample", post=_post_base_draw, tag="c16")


# ----------------------------------------------------------------------
# model specs of the Hs - steepness structure
# ----------------------------------------------------------------------
def hs_s_spec(rng, variant):
    if variant == "windmeier":
        a, b = 0.0485, 1.47
        shift = 0.0
        la, lb = 1.24, 0.9
        hs = {"alpha": 0.207, "beta": 0.684, "delta": 7.79}
    elif variant == "nonzero":
        a, b = 0.0485, 1.47
        shift = 0.006
        la, lb = 1.24, 0.9
        hs = {"alpha": 0.207, "beta": 0.684, "delta": 7.79}
    elif variant == "tank":
        # wave-tank scale: Hs of centimetres to decimetres (absolute differences of 0.005 matter)
        a, b = float(rng.uniform(0.03, 0.07)), float(rng.uniform(8.0, 30.0))
        shift = float(rng.choice([0.0, 0.004]))
        la, lb = float(rng.uniform(0.9, 1.6)), float(rng.uniform(4.0, 12.0))
        hs = {"alpha": float(rng.uniform(0.02, 0.09)), "beta": float(rng.uniform(0.9, 1.8)), "delta": float(rng.uniform(1.0, 4.0))}
    else:
        a, b = float(rng.uniform(0.02, 0.07)), float(rng.uniform(0.5, 2.5))
        shift = float(rng.choice([0.0, 0.004, 0.01]))
        la, lb = float(rng.uniform(0.8, 2.0)), float(rng.uniform(0.3, 1.2))
        hs = {"alpha": float(rng.uniform(0.15, 2.0)), "beta": float(rng.uniform(0.65, 1.6)), "delta": float(rng.uniform(1.0, 8.0))}
    return {
        "dims": [
            {"fam": "expweib", "params": hs},
            {
                "fam": "expweib",
                "cond": 0,
                "params": {
                    "alpha": {"shape": "limited_growth3", "coef": [shift, a, b]},
                    "beta": {"shape": "linear2", "coef": [la, lb]},
                    "delta": 2.35,
                },
            },
        ]
    }


def build_transformed(spec, precision_factor=1.0, random_state=None):
    import virocon
    from virocon import TransformedModel

    base = S.build_virocon(spec)
    _, _, _, tr = virocon.get_Windmeier_EW_Hs_S()
    return TransformedModel(base, tr["transform"], tr["inverse"], tr["jacobian"], precision_factor=precision_factor, random_state=random_state), base


# ---- exact laws -------------------------------------------------------
def s_of(hs, tz):
    return FACTOR * hs / (tz * tz)


def tz_of(hs, s):
    return np.sqrt(FACTOR * hs / s)


def exact_pdf(ref, hs, tz):
    hs, tz = np.asarray(hs, float), np.asarray(tz, float)
    s = s_of(hs, tz)
    X = np.stack([hs, s], axis=-1)
    return ref.pdf(X.reshape(-1, 2)).reshape(hs.shape) * 2 * FACTOR * hs / tz**3


def cdf_tz_given_hs(ref, v, h):
    """P(Tz <= v | Hs = h) = P(S >= 2 pi h / (g v^2) | h)."""
    v = np.asarray(v, float)
    X = np.stack([np.broadcast_to(h, v.shape), s_of(h, np.maximum(v, 1e-300))], axis=-1).reshape(-1, 2)
    out = ref.cond_sf(1, X).reshape(v.shape)
    return np.where(v > 0, out, 0.0)


def sf_tz_given_hs(ref, v, h):
    v = np.asarray(v, float)
    X = np.stack([np.broadcast_to(h, v.shape), s_of(h, np.maximum(v, 1e-300))], axis=-1).reshape(-1, 2)
    return np.where(v > 0, ref.cond_cdf(1, X).reshape(v.shape), 1.0)


def cdf_hs_given_tz(ref, x, t):
    """Exact by quadrature of the joint density along hs at fixed tz."""
    hi = ref.dim_range(0, eps=1e-14)[1]
    f = lambda h: float(exact_pdf(ref, h, t))  # noqa: E731
    p0 = ref.params_at(0, None)
    brk = sorted({float(R.icdf("expweib", q, **p0)) for q in (0.01, 0.5, 0.99)})
    with warnings.catch_warnings():
        warnings.simplefilter("ignore")
        tot, _ = integrate.quad(f, 0, hi, limit=400, points=[b for b in brk if 0 < b < hi], epsabs=0, epsrel=1e-10)
        out = []
        for xv in np.atleast_1d(x):
            xv = min(float(xv), hi)
            v, _ = integrate.quad(f, 0, xv, limit=400, points=[b for b in brk if 0 < b < xv] or None, epsabs=0, epsrel=1e-10)
            out.append(v / tot if tot > 0 else np.nan)
    return np.array(out), tot


def exact_joint_cdf(ref, hs, tz):
    hi = float(hs)
    p0 = ref.params_at(0, None)

    def f(h):
        X0 = np.array([[h, 0.0]])
        return float(R.pdf("expweib", h, **p0)) * float(cdf_tz_given_hs(ref, np.array([tz]), h)[0])

    brk = sorted({float(R.icdf("expweib", q, **p0)) for q in (0.05, 0.5, 0.95)})
    with warnings.catch_warnings():
        warnings.simplefilter("ignore")
        v, e = integrate.quad(f, 0, hi, limit=400, points=[b for b in brk if 0 < b < hi] or None, epsabs=1e-12, epsrel=1e-10)
    return v, e


# ----------------------------------------------------------------------
def gen_cases(tier, seed):
    rng = np.random.default_rng([seed, 16])
    cases = []
    for i in range(6 if tier == "quick" else 60):
        cases.append({"kind": "transform", "sub": int(rng.integers(1 << 31)), "cost": 0.2})
    variants = ["windmeier", "nonzero", "random", "tank"]
    nm = 8 if tier == "quick" else 80
    for i in range(nm):
        cases.append({"kind": "model", "variant": variants[i % 4], "sub": int(rng.integers(1 << 31)), "cost": 12, "big": [1200000, 2500000, 1000001][i % 3] if i % 4 == 1 else None, "history": i % 4 == 2})
    qs = [1e-6, 1e-3, 0.05, 0.5, 0.95, 0.999, 1 - 1e-4, 1 - 1e-6, 1 - 1e-8]
    nc = 2 if tier == "quick" else 12
    for r in range(nc):
        for q in qs:
            cases.append({"kind": "conditional", "variant": variants[(r + int(q * 7)) % 4], "dim": 1, "q": q, "n": int(rng.choice([20000, 100000])), "sub": int(rng.integers(1 << 31)), "cost": 6, "small_n": q in (0.05, 0.5, 0.95)})
        for q in (0.05, 0.5, 0.95, 0.999):
            cases.append({"kind": "conditional", "variant": variants[r % 4], "dim": 0, "q": q, "n": 20000, "sub": int(rng.integers(1 << 31)), "cost": 10})
    ni = 6 if tier == "quick" else 40
    for i in range(ni):
        cases.append(
            {
                "kind": "iform",
                "history": i % 2 == 1,
                "variant": variants[i % 4],
                "alpha": float(10 ** rng.uniform(-3, -1.3)) if tier == "quick" else float(10 ** rng.uniform(-4.5, -1.3)),
                "n_points": int(rng.choice([6, 8, 12])),
                "pf": float(rng.choice([0.1, 0.3, 1.0])),
                "seed": int(rng.choice([0, 1, 42])),
                "sub": int(rng.integers(1 << 31)),
                "cost": 60,
            }
        )
    return cases


def run_case(case, ctx):
    ctx.cls("kind", case["kind"])
    ctx.sig = str({k: v for k, v in case.items() if k not in ("id", "cost")})
    PROBES.clear()
    BASE_SAMPLES.clear()
    with warnings.catch_warnings():
        warnings.simplefilter("ignore")
        {"transform": _transform, "model": _model, "conditional": _conditional, "iform": _iform}[case["kind"]](case, ctx)


def _transform(case, ctx):
    import virocon
    from virocon import variable_transform as vt

    rng = np.random.default_rng(case["sub"])
    n = 4000
    hs = 10 ** rng.uniform(-3, 2, n)
    tz = 10 ** rng.uniform(-3, 2, n)

    def rt(name, fwd, inv, extra=None):
        a, b = fwd(hs, tz)
        h2, t2 = inv(a, b)
        tol = 1e-12 + (extra if extra is not None else 0.0) + 64 * EPS
        bad = (np.abs(h2 - hs) > tol * hs) | (np.abs(t2 - tz) > tol * tz)
        j = int(np.argmax(np.abs(h2 - hs) / hs + np.abs(t2 - tz) / tz))
        ctx.check("c16.roundtrip", not bool(np.any(bad)), f"{name}: inverse(transform(x)) != x on the positive quadrant", hs=float(hs[j]), tz=float(tz[j]), back=[float(h2[j]), float(t2[j])], n_bad=int(bad.sum()))

    s, d = vt.hs_tz_to_s_d(hs, tz)
    A = 16 * d**2 * s**2
    rt("hs_tz_to_s_d / s_d_to_hs_tz", vt.hs_tz_to_s_d, vt.s_d_to_hs_tz, 8 * EPS * (1 + FACTOR**2 / A) * 4)
    rt("hs_tz_to_hs_s / hs_s_to_hs_tz", vt.hs_tz_to_hs_s, vt.hs_s_to_hs_tz)
    rt("hs_tz_to_s_tz / s_tz_to_hs_tz", vt.hs_tz_to_s_tz, vt.s_tz_to_hs_tz)
    # forward formulas against the harness's own
    s1, _ = vt.hs_tz_to_s_d(hs, tz)
    ctx.check("c16.transform-formula", bool(np.all(np.abs(s1 - s_of(hs, tz)) <= 1e-13 * s_of(hs, tz))) and bool(np.all(np.abs(d - np.sqrt(hs**2 + tz**2 / 2)) <= 1e-13 * d)), "steepness / d are not 2 pi hs / (g tz^2) and sqrt(hs^2 + tz^2/2)")
    # predefined triples: Jacobian = |det d transform / dx| (numerical, central differences)
    for getter in ("get_Windmeier_EW_Hs_S", "get_Nonzero_EW_Hs_S"):
        tr = getattr(virocon, getter)()[3]
        X = np.c_[hs[:400], tz[:400]]
        J = np.asarray(tr["jacobian"](X), float)
        h = 1e-6
        Jn = np.empty(len(X))
        for k, (a, b) in enumerate(X):
            da, db = h * a, h * b
            fa = (tr["transform"](np.array([[a + da, b]])) - tr["transform"](np.array([[a - da, b]]))) / (2 * da)
            fb = (tr["transform"](np.array([[a, b + db]])) - tr["transform"](np.array([[a, b - db]]))) / (2 * db)
            Jn[k] = abs(fa[0, 0] * fb[0, 1] - fa[0, 1] * fb[0, 0])
        ok = np.abs(J - Jn) <= 1e-5 * np.abs(Jn)
        j = int(np.argmin(ok))
        ctx.check("c16.jacobian", bool(np.all(ok)), f"{getter}: the supplied Jacobian is not |det d transform / dx|", point=X[j].tolist(), got=float(J[j]), numeric=float(Jn[j]))
        back = tr["inverse"](tr["transform"](X))
        ctx.check("c16.roundtrip", bool(np.all(np.abs(back - X) <= 1e-12 * np.abs(X))), f"{getter}: inverse(transform(x)) != x", n=len(X))
        # points given as integers (whole metres and seconds), as lists, as a single row: the same numbers as floats
        Xi = np.array([[1, 5], [2, 6], [3, 8], [7, 11]])
        want_t = np.asarray(tr["transform"](Xi.astype(float)), float)
        for fname, form in (("int64", Xi), ("int32", Xi.astype(np.int32)), ("list", Xi.tolist())):
            try:
                got_t = np.asarray(tr["transform"](form), float)
                ok_t = got_t.shape == want_t.shape and bool(np.allclose(got_t, want_t, rtol=1e-14, atol=0))
            except Exception as e:  # noqa: BLE001
                ctx.count(f"c16.transform-form-rejected[{fname}:{type(e).__name__}]")
                continue
            ctx.check("c16.roundtrip", ok_t, f"{getter}: transform of {fname} points differs from the same points as floats", form=fname, got=got_t[:2], want=want_t[:2])
    ctx.nontrivial = True
    ctx.sample = {"kind": "transform", "n_points": n, "first": [float(hs[0]), float(tz[0])]}


def _model(case, ctx):
    rng = np.random.default_rng(case["sub"])
    spec = hs_s_spec(rng, case["variant"])
    ref = S.RefModel(spec)
    tm, base = build_transformed(spec)
    ctx.cls("variant", case["variant"])
    info = {"variant": case["variant"], "spec": spec}
    # pdf = push-forward of the base density
    Xs = ref.sample(300, rng)
    pts = np.c_[Xs[:, 0], tz_of(Xs[:, 0], Xs[:, 1])]
    pts = pts[np.all(np.isfinite(pts), axis=1) & (pts[:, 0] > 0) & (pts[:, 1] > 0)]
    got = np.asarray(tm.pdf(pts), float)
    want = exact_pdf(ref, pts[:, 0], pts[:, 1])
    ok = np.abs(got - want) <= 1e-9 * np.abs(want) + 1e-200
    j = int(np.argmin(ok))
    ctx.check("c16.pdf-pushforward", bool(np.all(ok)), "TransformedModel.pdf is not the push-forward of the base density", point=pts[j].tolist(), got=float(got[j]), want=float(want[j]), **info)
    # empirical cdf of a SUPPLIED sample: the fraction of its rows below the point, for sample sizes of every kind
    # (one row, a few thousand, above 1e5 and not a multiple of 1e5)
    for n_s in (1, 4000, [150000, 250001, 100000][int(case["sub"]) % 3]):
        smp_s = np.asarray(tm.draw_sample(n_s, random_state=int(case["sub"]) % 1000 + 1), float)
        ev = pts[:4]
        got_e = np.asarray(tm.empirical_cdf(ev, sample=smp_s), float)
        want_e = np.array([np.mean(np.all(smp_s <= e_, axis=1)) for e_ in ev])
        ctx.check("c16.empirical-cdf", got_e.shape == want_e.shape and bool(np.allclose(got_e, want_e, rtol=1e-12, atol=1e-15)), "empirical_cdf of a supplied sample is not the fraction of its rows at or below the point", n_sample=n_s, got=got_e, want=want_e, **info)
    # integer-typed evaluation points
    Pi = np.array([[1, 4], [2, 6], [3, 7]])
    if case["variant"] == "tank":
        Pi = np.array([[1, 2], [1, 3]])
    with np.errstate(all="ignore"):
        gi = np.asarray(tm.pdf(Pi), float)
        gf = np.asarray(tm.pdf(Pi.astype(float)), float)
    ctx.check("c16.pdf-pushforward", gi.shape == gf.shape and bool(np.allclose(gi, gf, rtol=1e-12, atol=0, equal_nan=True)), "TransformedModel.pdf of integer-typed points differs from the same points as floats", got=gi, want=gf, **info)
    # draw_sample = inverse transform of the base sample it drew
    BASE_SAMPLES.clear()
    smp = np.asarray(tm.draw_sample(5000), float)
    okd = False
    if BASE_SAMPLES:
        b = BASE_SAMPLES[-1]
        okd = smp.shape == b.shape and bool(np.allclose(smp[:, 0], b[:, 0], rtol=1e-14, atol=0)) and bool(np.allclose(smp[:, 1], tz_of(b[:, 0], b[:, 1]), rtol=1e-12, atol=0))
    ctx.check("c16.sample-is-inverse-of-base", okd, "TransformedModel.draw_sample is not the inverse-transformed sample of the base model", observed_base_draws=len(BASE_SAMPLES), **info)
    # call history: the lazily cached Monte-Carlo sample is used (empirical_cdf), the base model's dependence parameters
    # change in place (what a re-fit does), then samples are drawn again: they belong to the CURRENT parameters
    if case.get("history"):
        with np.errstate(all="ignore"):
            tm.empirical_cdf(pts[:3])
        dep = base.distributions[1].conditional_parameters["alpha"]
        keys = list(dep.parameters.keys())
        dep.parameters[keys[1]] = float(dep.parameters[keys[1]]) * 1.6
        spec["dims"][1]["params"]["alpha"]["coef"][1] = float(spec["dims"][1]["params"]["alpha"]["coef"][1]) * 1.6
        ref_h = S.RefModel(spec)
        for how, kw_ in (("unseeded", {}), ("seeded", {"random_state": 12345})):
            BASE_SAMPLES.clear()
            smp_h = np.asarray(tm.draw_sample(20000, **kw_), float)
            okh = bool(BASE_SAMPLES) and smp_h.shape == BASE_SAMPLES[-1].shape and bool(np.allclose(smp_h[:, 0], BASE_SAMPLES[-1][:, 0], rtol=1e-14, atol=0))
            ctx.check("c16.sample-is-inverse-of-base", okh, f"after the cached sample was used and the base parameters changed, a {how} draw_sample is not the inverse-transformed sample of the base model", observed_base_draws=len(BASE_SAMPLES), **info)
            Xb = np.c_[smp_h[:, 0], s_of(smp_h[:, 0], smp_h[:, 1])]
            U1 = ref_h.cond_cdf(1, Xb)
            D_ = stats.ks_distance(U1[np.isfinite(U1)], lambda t: np.clip(t, 0, 1))
            ctx.check("c16.sample-follows-current-parameters", D_ <= stats.dkw_eps(len(U1)) + 1e-6, f"after a parameter change a {how} sample of the transformed model does not follow the current conditional law (stale sample)", ks=D_, eps=stats.dkw_eps(len(U1)), **info)
        ctx.cls("history", "cache-used-then-parameters-changed")
        return
    # size as an input class: a seeded sample of more than a million rows (what a small-alpha contour draws)
    if case.get("big"):
        nb = int(case["big"])
        sd = int(rng.integers(1 << 30))
        BASE_SAMPLES.clear()
        big = np.asarray(tm.draw_sample(nb, random_state=sd), float)
        okb = big.shape == (nb, 2)
        base_rows = np.concatenate(BASE_SAMPLES) if BASE_SAMPLES else np.empty((0, 2))
        if okb:
            okb = base_rows.shape == big.shape and bool(np.allclose(big[:, 0], base_rows[:, 0], rtol=1e-14, atol=0)) and bool(np.allclose(big[:, 1], tz_of(base_rows[:, 0], base_rows[:, 1]), rtol=1e-12, atol=0))
        ctx.check("c16.sample-is-inverse-of-base", okb, "TransformedModel.draw_sample (more than a million rows, seeded) is not the inverse-transformed sample of the base model", n=nb, shape=list(big.shape), observed_base_draws=len(BASE_SAMPLES), **info)
        with M.quiet():
            want_base = np.asarray(base.draw_sample(nb, random_state=sd), float)
        same_stream = big.shape == want_base.shape and bool(np.allclose(big[:, 0], want_base[:, 0], rtol=1e-14, atol=0))
        ctx.check("c16.sample-is-inverse-of-base", same_stream, "a seeded sample of the transformed model is not the transform of the base model's sample for that seed", n=nb, distinct_rows=int(np.unique(big[:, 0]).size), **info)
        ctx.cls("big-sample", nb)
    # cdf against the exact cdf; empirical cdf within the multivariate DKW band
    q = [float(rng.uniform(0.3, 0.9)), float(rng.uniform(0.3, 0.9))]
    U = np.array([[sp.ndtri(q[0]), sp.ndtri(q[1])]])
    xb = ref.inv_rosenblatt(U)[0]
    x = np.array([xb[0], tz_of(xb[0], xb[1])])
    want, err = exact_joint_cdf(ref, x[0], x[1])
    got = float(np.asarray(tm.cdf(x.reshape(1, 2)), float)[0])
    # (TransformedModel.cdf is scipy's adaptive 2-D quadrature of the pdf with default tolerances; on the ridge-shaped
    #  (hs, tz) densities it is good to a few 1e-5 - 3.2e-5 seen in 80 models - while the property only asks for
    #  agreement within Monte-Carlo error: 2e-4 is allowed)
    ctx.check("c16.cdf", abs(got - want) <= 2e-4 + 10 * err, "TransformedModel.cdf is not the integral of its density (exact cdf by quadrature)", point=x.tolist(), got=got, want=want, **info)
    n_emp = 200000
    big = np.asarray(tm.draw_sample(n_emp), float)
    emp = float(np.asarray(tm.empirical_cdf(x.reshape(1, 2), sample=big), float)[0])
    en = stats.naaman_eps(n_emp, 2)
    ctx.check("c16.empirical-cdf", abs(emp - want) <= en + 10 * err, "empirical cdf of the model's own sample differs from its cdf beyond Monte-Carlo error", empirical=emp, exact=want, eps=en, **info)
    # marginal / conditional uniformity of the sample (exact Rosenblatt)
    P0 = R.cdf("expweib", big[:, 0], **ref.params_at(0, None))
    D0 = stats.ks_distance_u(P0)
    P1 = np.array(cdf_tz_given_hs(ref, big[:, 1], big[:, 0]))
    D1 = stats.ks_distance_u(P1)
    e1 = stats.dkw_eps(n_emp)
    ctx.check("c16.sample-law", D0 <= e1 and D1 <= e1, "samples of the transformed model do not follow the exact push-forward law", ks_hs=D0, ks_tz_given_hs=D1, eps=e1, **info)
    # a second transformed model alive in the same process: each model's empirical cdf (default = its own cached
    # sample of 1e6 points) must follow its OWN law
    spec_b = hs_s_spec(np.random.default_rng(case["sub"] + 11), "random")
    ref_b = S.RefModel(spec_b)
    tm_b, _ = build_transformed(spec_b)
    n_def = 1000000
    en6 = stats.naaman_eps(n_def, 2)
    for label, mdl, rf in (("first", tm, ref), ("second", tm_b, ref_b), ("first-again", tm, ref)):
        Ub = np.array([[sp.ndtri(0.6), sp.ndtri(0.55)]])
        xbb = rf.inv_rosenblatt(Ub)[0]
        xx = np.array([xbb[0], tz_of(xbb[0], xbb[1])])
        w_, e_ = exact_joint_cdf(rf, xx[0], xx[1])
        emp_ = float(np.asarray(mdl.empirical_cdf(xx.reshape(1, 2)), float)[0])
        ctx.check("c16.empirical-cdf-own-sample", abs(emp_ - w_) <= en6 + 10 * e_ + 1e-6, f"empirical_cdf (default sample) of the {label} of two live transformed models does not follow its own law", empirical=emp_, exact=w_, eps=en6, **info)
    ctx.nontrivial = True
    ctx.sample = {"kind": "model", "variant": case["variant"], "point": x.tolist(), "cdf": got, "exact_cdf": want, "empirical_cdf": emp}


def _conditional(case, ctx):
    rng = np.random.default_rng(case["sub"])
    spec = hs_s_spec(rng, case["variant"])
    ref = S.RefModel(spec)
    tm, base = build_transformed(spec)
    dim, q, n = case["dim"], case["q"], case["n"]
    ctx.cls("variant", case["variant"])
    ctx.cls("dim", dim)
    ctx.cls("q", q)
    p0 = ref.params_at(0, None)
    if dim == 1:
        g = float(R.icdf("expweib", q, **p0)) if q < 0.5 else float(R.isf("expweib", 1 - q, **p0))
        exact = lambda v: cdf_tz_given_hs(ref, v, g)  # noqa: E731
    else:
        # conditioning on Tz: a bulk / tail value of the Tz marginal, taken from a reference sample
        Xs = ref.sample(200000, rng)
        tzs = tz_of(Xs[:, 0], Xs[:, 1])
        g = float(np.quantile(tzs[np.isfinite(tzs)], q))
        exact = lambda v: cdf_hs_given_tz(ref, v, g)[0]  # noqa: E731
    info = {"variant": case["variant"], "dim": dim, "given": g, "given_quantile": q, "n": n, "spec": spec}
    ctx.nontrivial = not (0.05 <= q <= 0.95) or n >= 100000
    seed = int(rng.integers(1 << 30))
    PROBES.clear()
    from virocon.jointmodels import CouldNotSampleError

    try:
        smp = np.asarray(tm.conditional_sample(n, dim, g, random_state=seed), float)
    except CouldNotSampleError as e:
        mech = _support_mech(ref, dim, g, None, exact)
        ctx.check("c16.conditional-sample", False, "conditional_sample could not draw from a proper conditional density", mech, message=str(e)[:100], probe=_probe_summary(), **info)
        return
    eps = stats.dkw_eps(len(smp))
    if dim == 1:
        D = stats.ks_distance(smp, exact)
    else:
        xs = np.sort(smp)
        idx = np.unique(np.linspace(0, len(xs) - 1, 60).astype(int))
        F = exact(xs[idx])
        emp_hi = (idx + 1) / len(xs)
        emp_lo = idx / len(xs)
        D = float(max(np.max(emp_hi - F), np.max(F - emp_lo)))
    mech = None
    if D > eps:
        mech = _support_mech(ref, dim, g, smp, exact)
    ctx.check("c16.conditional-sample", D <= eps + 1e-6, f"conditional sample does not follow the exact conditional law (KS {D:.4g} > DKW {eps:.4g})", mech, ks=D, eps=eps, sample_max=float(smp.max()), sample_min=float(smp.min()), probe=_probe_summary(), **info)
    ctx.check("c16.conditional-sample-size", len(smp) == n, "conditional_sample returned another number of points than requested", got=int(len(smp)), **info)
    # reproducibility
    smp2 = np.asarray(tm.conditional_sample(n, dim, g, random_state=seed), float)
    ctx.check("c16.conditional-reproducible", np.array_equal(smp, smp2), "conditional_sample with the same random_state differs", **info)
    # conditional cdf / icdf (Monte-Carlo) within their DKW bands
    if D <= eps:
        pv = np.array([0.1, 0.5, 0.9])
        given = np.full((3, 1), g)
        xq = np.asarray(tm.conditional_icdf(pv, dim, given, random_state=seed + 1), float)
        Fx = np.asarray(exact(xq), float)
        e5 = stats.dkw_eps(100000)
        ok_i = bool(np.all(np.abs(Fx - pv) <= e5 + 1e-6))
        # a smaller truncation than the 20000-point sample can show is visible in the 100000-point band: the same known
        # finding, verified by agreement with the TRUNCATED law F / F(x_max) that the probe implies
        ctx.check("c16.conditional-icdf", ok_i, "conditional_icdf is outside the Monte-Carlo band around the exact conditional quantile", None if ok_i else _truncated_law_mech(exact, Fx, pv, e5, smp), p=pv, exact_cdf_at_result=Fx, eps=e5, probe=_probe_summary(), **info)
        pc = np.asarray(tm.conditional_cdf(xq, dim, given, random_state=seed + 2), float)
        ok_c = bool(np.all(np.abs(pc - Fx) <= e5 + 1e-6))
        ctx.check("c16.conditional-cdf", ok_c, "conditional_cdf is outside the Monte-Carlo band around the exact conditional cdf", None if ok_c else _truncated_law_mech(exact, Fx, pc, e5, smp), got=pc, exact=Fx, eps=e5, probe=_probe_summary(), **info)
    # small requests (one Tz per sea state in a simulation loop): pooled independent calls of n = 1, 2, 4, 10 draws each
    # must follow the same conditional law as one large call
    if case.get("small_n") and D <= eps and dim == 1:
        for n_small in (1, 2, 4, 10):
            calls = 3000 // n_small
            pool = np.concatenate([np.asarray(tm.conditional_sample(n_small, dim, g, random_state=seed + 100 + j), float) for j in range(calls)])
            Dp = stats.ks_distance(pool, exact)
            ep = stats.dkw_eps(len(pool))
            mech_p = _support_mech(ref, dim, g, pool, exact) if Dp > ep else None
            ctx.check("c16.conditional-sample", Dp <= ep + 1e-6, f"pooled conditional samples of {n_small} draw(s) per call do not follow the exact conditional law (KS {Dp:.4g} > DKW {ep:.4g})", mech_p, ks=Dp, eps=ep, n_per_call=n_small, calls=calls, **info)
        ctx.cls("small-n-pooled", True)
    # batch calls: several conditioning values in ONE call, close to each other in absolute terms; every row has to
    # follow its own conditional law
    if D <= eps and dim == 1 and 0.04 <= q <= 0.96:
        gs = np.array([g, g + 0.004, g + 0.008, max(g - 0.006, g * 0.5)])
        pv = np.array([0.5, 0.5, 0.5, 0.5])
        xq = np.asarray(tm.conditional_icdf(pv, dim, gs.reshape(-1, 1), random_state=seed + 5), float)
        Fb = np.array([float(cdf_tz_given_hs(ref, np.array([xq[k]]), gs[k])[0]) for k in range(len(gs))])
        e5 = stats.dkw_eps(100000)
        ctx.check("c16.conditional-icdf-batch", bool(np.all(np.abs(Fb - pv) <= e5 + 1e-6)), "conditional_icdf with several conditioning values in one call: a row does not follow its own conditional law", givens=gs, exact_cdf_at_result=Fb, eps=e5, **info)
        xs = np.array([float(np.median(smp))] * len(gs))
        pc = np.asarray(tm.conditional_cdf(xs, dim, gs.reshape(-1, 1), random_state=seed + 6), float)
        Fe = np.array([float(cdf_tz_given_hs(ref, np.array([xs[k]]), gs[k])[0]) for k in range(len(gs))])
        ctx.check("c16.conditional-cdf-batch", bool(np.all(np.abs(pc - Fe) <= e5 + 1e-6)), "conditional_cdf with several conditioning values in one call: a row does not follow its own conditional law", givens=gs, got=pc, exact=Fe, eps=e5, **info)
    ctx.sample = {"kind": "conditional", **{k: v for k, v in info.items() if k != "spec"}, "ks": D, "dkw_eps": eps, "probe": _probe_summary()}


def _probe_summary():
    if not PROBES:
        return None
    p = PROBES[-1]
    return {"x_max": float(p["x_max"]), "f_max": float(p["f_max"]), "x_min": float(p["x_min"])}


def _truncated_law_mech(exact, F_exact, p_observed, eps, smp):
    """The observed probabilities agree (within the band) with the exact law truncated at the probe's x_max, which cuts
    more than 1e-3 of the mass, and the sample stays below x_max: the support search truncated the conditional law."""
    pr = _probe_summary()
    if pr is None:
        return None
    try:
        mass_below = float(np.atleast_1d(exact(np.array([pr["x_max"]])))[0])
    except Exception:  # noqa: BLE001
        return None
    if not (1e-3 < 1.0 - mass_below < 0.5):
        return None
    if smp is not None and float(np.max(smp)) > pr["x_max"] * (1 + 1e-12):
        return None
    trunc = np.minimum(np.asarray(F_exact, float) / mass_below, 1.0)
    if bool(np.all(np.abs(trunc - np.asarray(p_observed, float)) <= eps + 1e-6)):
        return "conditional-sample-support-search-truncates"
    return None


def _support_mech(ref, dim, g, smp, exact):
    """Predicate of the known finding 'the support search thresholds the JOINT density': the probe reports an x_max
    below which the exact conditional law leaves out more mass than the DKW bound (the sample, if any, stays below it)."""
    pr = _probe_summary()
    if pr is None:
        return None
    x_max = pr["x_max"]
    try:
        mass_below = float(np.atleast_1d(exact(np.array([x_max])))[0])
    except Exception:  # noqa: BLE001
        return None
    cut = 1.0 - mass_below
    if cut > 1e-3 and (smp is None or float(np.max(smp)) <= x_max * (1 + 1e-12)):
        return "conditional-sample-support-search-truncates"
    if pr["f_max"] <= 1.001e-7 * 1.001 and smp is None:
        return "conditional-sample-support-search-truncates"
    return None


def _iform(case, ctx):
    from virocon import IFORMContour

    rng = np.random.default_rng(case["sub"])
    spec = hs_s_spec(rng, case["variant"])
    ref = S.RefModel(spec)
    alpha, npts, pf, seed = case["alpha"], case["n_points"], case["pf"], case["seed"]
    ctx.cls("variant", case["variant"])
    info = {"variant": case["variant"], "alpha": alpha, "n_points": npts, "precision_factor": pf, "random_state": seed, "spec": spec}
    tm, _ = build_transformed(spec, precision_factor=pf, random_state=seed)
    con = IFORMContour(tm, alpha, n_points=npts)
    X = np.asarray(con.coordinates, float)
    beta = float(-sp.ndtri(alpha))
    th = 2 * math.pi * np.arange(npts) / npts
    P = sp.ndtr(np.c_[beta * np.cos(th), beta * np.sin(th)])
    # documented sample sizes
    p_small0 = float(min(P[:, 0].min(), 1 - P[:, 0].max()))
    n0 = max(int((1 / p_small0) * 100 * pf), 100000)
    e0 = stats.dkw_eps(n0)
    F0 = R.cdf("expweib", X[:, 0], **ref.params_at(0, None))
    ok0 = np.abs(F0 - P[:, 0]) <= e0 + 1e-9
    F1 = np.array([float(cdf_tz_given_hs(ref, np.array([X[k, 1]]), X[k, 0])[0]) for k in range(npts)])
    n1 = np.array([int(min(max((1 / (p if p < 0.5 else 1 - p)) * 100 * pf, 100000), 10000000)) for p in P[:, 1]])
    e1 = np.array([stats.dkw_eps(int(v)) for v in n1])
    ok1 = np.abs(F1 - P[:, 1]) <= e1 + 1e-9
    j0, j1 = int(np.argmin(ok0)), int(np.argmin(ok1))
    ctx.check("c16.iform-point", bool(np.all(ok0)), "transformed IFORM: the first coordinate is outside the Monte-Carlo band around the exact marginal quantile", index=j0, coordinate=float(X[j0, 0]), exact_cdf=float(F0[j0]), target=float(P[j0, 0]), eps=e0, **info)
    mech = None
    if not np.all(ok1):
        mech = _iform_mech(ref, X, j1)
    ctx.check("c16.iform-point", bool(np.all(ok1)), "transformed IFORM: the second coordinate is outside the Monte-Carlo band around the exact conditional quantile given the first", mech, index=j1, point=X[j1].tolist(), exact_conditional_cdf=float(F1[j1]), target=float(P[j1, 1]), eps=float(e1[j1]), **info)
    ctx.check("c16.iform-shape", X.shape == (npts, 2) and abs(con.beta - beta) <= 1e-9 * max(1, beta), "transformed IFORM: shape / beta", shape=list(X.shape), **info)
    # exact reproducibility with random_state set
    tm2, _ = build_transformed(spec, precision_factor=pf, random_state=seed)
    con2 = IFORMContour(tm2, alpha, n_points=npts)
    X2 = np.asarray(con2.coordinates, float)
    same = np.array_equal(X, X2)
    mech = None
    if not same and not np.array_equal(X[:, 0], X2[:, 0]):
        # the first coordinate comes from marginal_icdf alone: it differs only if that Monte-Carlo sample is unseeded
        mech = "transformed-iform-first-variable-unseeded"
    ctx.check("c16.iform-reproducible", same, "transformed IFORM contour is not reproduced exactly although the model's random_state is set", mech, first=X[:2].tolist(), second=X2[:2].tolist(), **info)
    # ... and whatever was evaluated on the model in between (the lazily cached unseeded sample behind empirical_cdf / .sample)
    if case.get("history"):
        with np.errstate(all="ignore"):
            tm2.empirical_cdf(X[:2])
        X3 = np.asarray(IFORMContour(tm2, alpha, n_points=npts).coordinates, float)
        ctx.check("c16.iform-reproducible", np.array_equal(X, X3), "transformed IFORM contour (random_state set) changes after empirical_cdf() was evaluated on the same model", first=X[:2].tolist(), after_history=X3[:2].tolist(), **info)
        ctx.cls("history", "empirical_cdf-between-two-seeded-contours")
    ctx.nontrivial = True
    ctx.sample = {"kind": "iform", **{k: v for k, v in info.items() if k != "spec"}, "first_point": X[0].tolist(), "n_marginal": n0}


def _iform_mech(ref, X, j):
    """The offending point's conditional sample was truncated by the support search: the probe recorded for this
    conditioning value reports an x_max that cuts more exact conditional mass than the DKW bound (or nothing could be sampled)."""
    if X[j, 1] == 0.0:
        return "conditional-sample-support-search-truncates"
    for pr in PROBES:
        g = np.atleast_1d(np.asarray(pr["given"], float))
        if pr["dim"] == 1 and g.size == 1 and float(g[0]) == float(X[j, 0]):
            cut = 1.0 - float(cdf_tz_given_hs(ref, np.array([float(pr["x_max"])]), float(X[j, 0]))[0])
            if cut > 1e-3:
                return "conditional-sample-support-search-truncates"
    return None
