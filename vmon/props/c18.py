"""C18 - ill-formed model, fit and contour specifications are rejected, not computed (fault enumeration)."""
import itertools
import warnings

import numpy as np

from .. import monitors as M
from .. import refmodel as R
from .. import specs as S

ID = "C18"
LEVEL = "fault_enumeration"
CATALOGUE = {
    # model descriptions (consumed by GlobalHierarchicalModel(...))
    "no-distribution": "model",
    "conditional-without-parameters": "model",
    "unknown-key": "model",
    "unknown-parameter-name": "model",
    "parameter-fixed-and-dependent": "model",
    "parameter-neither-fixed-nor-dependent": "model",
    "first-variable-conditional": "model",
    "conditional-on-self": "model",
    "conditional-on-later": "model",
    "conditional-on-nonexistent": "model",
    "conditional-on-negative": "model",
    "conditional-on-non-int": "model",
    # fitting (consumed by model.fit)
    "data-wrong-dimension": "fit",
    "fit-descriptions-wrong-length": "fit",
    "fit-description-without-method": "fit",
    "unknown-fit-method": "fit",
    "unknown-weight-keyword": "fit",
    "non-iterable-weights": "fit",
    "too-few-intervals": "fit",
    # contours / evaluation
    "hdc-limits-wrong-length": "hdc",
    "hdc-limits-non-pair": "hdc",
    "hdc-limits-scalar-entry": "hdc",
    "hdc-deltas-wrong-length": "hdc",
    "non-finite-evaluation-point": "eval",
    "non-2d-model-for-2d-contour": "contour2d",
    "iform-wrong-model-type": "iform",
    # slicers
    "slicer-unknown-kwarg": "slicer-init",
    "slicer-unknown-reference-keyword": "slice",
    "slicer-reference-wrong-type": "slice",
}
RULE = (
    "fault = one entry of the catalogue (" + ", ".join(CATALOGUE) + ") injected into an otherwise valid description generated from a random 1..4-dimensional "
    "model spec (every family as carrier) at EVERY applicable dimension / position, singly and in pairs of faults at different positions. The operation that "
    "consumes the specification is then executed (construction, fit, slice_, contour construction, evaluation). Rejected = an exception is raised by that operation "
    "and no result object is returned. Every injection has a control - the same description without the fault - which must NOT raise. evaluations = injections "
    "executed; non-trivial = the control succeeded; distinct = (fault kinds, positions, carrier structure and families)."
    ' Also: fit faults on a carrier whose parameters are all fixed (bare and inside a model).'
)
ASSUMPTIONS = [
    "'where they are supplied' = no later than the first operation that consumes the specification (construction for model descriptions and slicer options; "
    "fit for data / fit descriptions / slicing; contour construction for grid and model-type faults; the evaluation call for non-finite points)",
    "any exception type counts as rejection; the type is recorded in the evidence",
    "weights are only consumed by least-squares fits (documented: ignored otherwise), so weight faults are injected into exponentiated-Weibull lsq fits",
]
REQUIRED = ["c18.rejected", "c18.control-accepted"]
CASE_TIMEOUT_S = 600


def install():
    pass


def gen_cases(tier, seed):
    rng = np.random.default_rng([seed, 18])
    n_carriers = 10 if tier == "quick" else 150
    cases = []
    for k in range(n_carriers):
        n_dim = [1, 2, 3, 4][k % 4]
        structs = S.all_structures(n_dim)
        st = structs[int(rng.integers(len(structs)))]
        if n_dim > 1 and all(c is None for c in st):
            st = structs[-1]
        fams = [S.ALL_FAMS[(k + j) % len(S.ALL_FAMS)] for j in range(3)] + ["weibull", "lognormal", "expweib"]
        cs = int(rng.integers(1 << 31))
        for group in ("model", "fit", "slicer", "contour"):
            cases.append({"carrier_seed": cs, "structure": st, "fams": fams, "pairs": True, "group": group, "cost": n_dim * {"model": 1, "fit": 6, "slicer": 0.5, "contour": 3}[group]})
    return cases


# ----------------------------------------------------------------------
def _descs(spec, with_intervals=True):
    from virocon import WidthOfIntervalSlicer, NumberOfIntervalsSlicer

    out = []
    for i, d in enumerate(spec["dims"]):
        desc = {"distribution": S.build_dist(d)}
        if d.get("cond") is not None:
            desc["conditional_on"] = d["cond"]
            desc["parameters"] = S.build_depfuncs(d)
        if with_intervals:
            desc["intervals"] = NumberOfIntervalsSlicer(n_intervals=4, min_n_points=10)
        out.append(desc)
    return out


def _fit_descs(spec):
    return [{"method": "mle"} for _ in spec["dims"]]


class Fault:
    def __init__(self, kind, pos, variant=None):
        self.kind, self.pos, self.variant = kind, pos, variant

    def key(self):
        return f"{self.kind}@{self.pos}" + (f"/{self.variant}" if self.variant is not None else "")


def model_faults(spec):
    """All applicable (kind, position) model-description faults."""
    n = len(spec["dims"])
    out = []
    for i, d in enumerate(spec["dims"]):
        cond = d.get("cond") is not None
        out.append(Fault("no-distribution", i))
        out.append(Fault("unknown-key", i))
        if cond:
            out.append(Fault("conditional-without-parameters", i))
            out.append(Fault("unknown-parameter-name", i))
            deps = [k for k, v in d["params"].items() if isinstance(v, dict)]
            fixed = [k for k, v in d["params"].items() if not isinstance(v, dict)]
            for k in fixed[:1]:
                out.append(Fault("parameter-fixed-and-dependent", i, k))
            # the same malformation with a FALSY fixed value (exactly zero), for every parameter
            for k in R.PARAMS[d["fam"]]:
                out.append(Fault("parameter-fixed-and-dependent", i, k + "=0"))
            if len(deps) >= 1:
                out.append(Fault("parameter-neither-fixed-nor-dependent", i, deps[0]))
        if i > 0:
            out.append(Fault("conditional-on-self", i))
            out.append(Fault("conditional-on-nonexistent", i, n))
            out.append(Fault("conditional-on-nonexistent", i, n + 3))
            out.append(Fault("conditional-on-negative", i, -1))
            out.append(Fault("conditional-on-negative", i, -n))
            out.append(Fault("conditional-on-non-int", i, 0.5))
            out.append(Fault("conditional-on-non-int", i, "0"))
            if i < n - 1:
                out.append(Fault("conditional-on-later", i, i + 1))
                out.append(Fault("conditional-on-later", i, n - 1))
    out.append(Fault("first-variable-conditional", 0))
    return out


def _const_dep(value):
    from virocon import DependenceFunction

    def _c(x, a=value):
        return a + 0 * x

    return DependenceFunction(_c)


def apply_model_fault(descs, spec, f):
    i = f.pos
    d = descs[i]
    fam = spec["dims"][i]["fam"]
    names = R.PARAMS[fam]
    if f.kind == "no-distribution":
        del d["distribution"]
    elif f.kind == "unknown-key":
        d["conditional_upon"] = 0
    elif f.kind == "conditional-without-parameters":
        del d["parameters"]
    elif f.kind == "unknown-parameter-name":
        d["parameters"] = dict(d["parameters"])
        d["parameters"]["not_a_parameter"] = _const_dep(1.0)
    elif f.kind == "parameter-fixed-and-dependent" and f.variant.endswith("=0"):
        name = f.variant[:-2]
        cur = spec["dims"][i]["params"]
        fixed_kw = {f"f_{k}": v for k, v in cur.items() if not isinstance(v, dict)}
        fixed_kw[f"f_{name}"] = 0.0
        d["distribution"] = S.classes()[fam](**fixed_kw)
        d["parameters"] = dict(d["parameters"])
        d["parameters"][name] = _const_dep(0.5)
    elif f.kind == "parameter-fixed-and-dependent":
        d["parameters"] = dict(d["parameters"])
        d["parameters"][f.variant] = _const_dep(float(spec["dims"][i]["params"][f.variant]))
    elif f.kind == "parameter-neither-fixed-nor-dependent":
        d["parameters"] = {k: v for k, v in d["parameters"].items() if k != f.variant}
    elif f.kind == "first-variable-conditional":
        p0 = spec["dims"][0]["params"]
        d["conditional_on"] = 0
        d["parameters"] = {k: _const_dep(float(v)) for k, v in p0.items()}
        d["distribution"] = S.classes()[fam]()
    elif f.kind.startswith("conditional-on-"):
        target = i if f.kind == "conditional-on-self" else f.variant
        if "conditional_on" not in d:
            p = spec["dims"][i]["params"]
            d["parameters"] = {k: _const_dep(float(v)) for k, v in p.items()}
            d["distribution"] = S.classes()[fam]()
        d["conditional_on"] = target
    else:
        raise KeyError(f.kind)


def run_case(case, ctx):
    from virocon import GlobalHierarchicalModel

    rng = np.random.default_rng(case["carrier_seed"])
    spec = S.gen_spec(rng, structure=case["structure"], fams=case["fams"], allow_hostile=False)
    n = len(spec["dims"])
    ctx.cls("n_dim", n)
    ctx.cls("structure", case["structure"])
    for d in spec["dims"]:
        ctx.cls("carrier:" + d["fam"], True)
    n_inj = [0]
    kinds = set()

    def judge(faults, op, control_ok):
        n_inj[0] += 1
        label = "+".join(f.key() for f in faults)
        for f in faults:
            kinds.add(f.kind)
            ctx.cls("fault:" + f.kind, True)
        ctx.check("c18.control-accepted", control_ok is True, f"control (description without the fault) was rejected: {control_ok}", faults=label)
        try:
            with warnings.catch_warnings():
                warnings.simplefilter("ignore")
                res = op()
            rejected, exc = False, None
        except Exception as e:  # noqa: BLE001
            rejected, exc = True, e
            res = None
        if rejected:
            ctx.count(f"c18.exception-type[{type(exc).__name__}]")
        mech = None
        if not rejected and all(f.kind.startswith("conditional-on-") for f in faults):
            mech = "conditional-on-not-validated"
        if not rejected and all(f.kind in ("slicer-reference-wrong-type", "slicer-unknown-reference-keyword") and f.variant == "ppi" for f in faults):
            mech = "ppi-non-callable-reference-accepted"
        ctx.check("c18.rejected", rejected, f"ill-formed specification accepted: {label}", mech, faults=label, structure=case["structure"], families=[d["fam"] for d in spec["dims"]], returned=type(res).__name__ if not rejected else None)

    def control(op):
        try:
            with warnings.catch_warnings():
                warnings.simplefilter("ignore")
                op()
            return True
        except Exception as e:  # noqa: BLE001
            return f"{type(e).__name__}: {str(e)[:120]}"

    group = case.get("group", "all")
    ctx.cls("group", group)
    # ---------------- model description faults ----------------
    ctrl_model = control(lambda: GlobalHierarchicalModel(_descs(spec)))
    mf = model_faults(spec)
    for f in (mf if group in ("model", "all") else []):
        def op(f=f):
            ds = _descs(spec)
            apply_model_fault(ds, spec, f)
            return GlobalHierarchicalModel(ds)

        judge([f], op, ctrl_model)
    if case.get("pairs") and group in ("model", "all"):
        pairs = [(a, b) for a, b in itertools.combinations(mf, 2) if a.pos != b.pos]
        rng.shuffle(pairs)
        for a, b in pairs[:60]:
            def op(a=a, b=b):
                ds = _descs(spec)
                apply_model_fault(ds, spec, a)
                apply_model_fault(ds, spec, b)
                return GlobalHierarchicalModel(ds)

            judge([a, b], op, ctrl_model)

    if group in ("fit", "all"):
        _fit_group(case, ctx, spec, n, rng, judge, control)
    if group in ("slicer", "all"):
        _slicer_group(ctx, rng, judge, control)
    if group in ("contour", "all"):
        _contour_group(case, ctx, n, rng, judge, control)
    ctx.notes["n_injections"] = n_inj[0]
    ctx.notes["kinds"] = sorted(kinds)
    ctx.nontrivial = ctrl_model is True
    ctx.sig = f"{case['structure']}|{[d['fam'] for d in spec['dims']]}|{group}"
    ctx.sample = {"group": group, "carrier_structure": case["structure"], "carrier_families": [d["fam"] for d in spec["dims"]], "injections": n_inj[0], "example_faults": [f.key() for f in mf[:6]]}


def _fit_group(case, ctx, spec, n, rng, judge, control):
    from virocon import GlobalHierarchicalModel

    # ---------------- fit faults ----------------
    ref = S.RefModel(spec)
    data = ref.sample(400, rng)
    data = data[np.all(np.isfinite(data), axis=1)]
    # a carrier that fits: non-negative two-parameter families only for the fit faults (robust control)
    fit_spec = S.gen_spec(np.random.default_rng(case["carrier_seed"] + 1), structure=case["structure"], fams=["lognormal", "normal"], allow_hostile=False)
    fref = S.RefModel(fit_spec)
    fdata = fref.sample(600, rng)

    def fit_model():
        return GlobalHierarchicalModel(_fit_descs_model(fit_spec))

    ctrl_fit = control(lambda: fit_model().fit(fdata, _fit_descs(fit_spec)))
    for i in range(n):
        def op_dim(delta, i=i):
            bad = np.c_[fdata, fdata[:, :1]] if delta > 0 else fdata[:, :-1]
            return fit_model().fit(bad, _fit_descs(fit_spec))

        for delta in (+1, -1):
            if n + delta >= 1 and i == 0:
                judge([Fault("data-wrong-dimension", i, delta)], lambda d=delta: op_dim(d), ctrl_fit)
        def op_nomethod(i=i):
            fd = _fit_descs(fit_spec)
            fd[i] = {"weights": None}
            return fit_model().fit(fdata, fd)

        judge([Fault("fit-description-without-method", i)], op_nomethod, ctrl_fit)

        def op_badmethod(i=i):
            fd = _fit_descs(fit_spec)
            fd[i] = {"method": "least-squares-ish"}
            return fit_model().fit(fdata, fd)

        judge([Fault("unknown-fit-method", i)], op_badmethod, ctrl_fit)
    for extra in (+1, -1, +3):
        if n + extra >= 0:
            def op_len(extra=extra):
                fd = _fit_descs(fit_spec)
                fd = fd + [{"method": "mle"}] * extra if extra > 0 else fd[:extra]
                return fit_model().fit(fdata, fd)

            judge([Fault("fit-descriptions-wrong-length", 0, extra)], op_len, ctrl_fit)
    # weights faults: exponentiated Weibull lsq at dimension 0
    from virocon import ExponentiatedWeibullDistribution

    ew_data = np.abs(rng.weibull(1.5, 500)) * 2 + 0.01
    ctrl_w = control(lambda: ExponentiatedWeibullDistribution().fit(ew_data, "wlsq", "quadratic"))
    judge([Fault("unknown-weight-keyword", 0)], lambda: ExponentiatedWeibullDistribution().fit(ew_data, "wlsq", "quartic"), ctrl_w)
    judge([Fault("non-iterable-weights", 0)], lambda: ExponentiatedWeibullDistribution().fit(ew_data, "lsq", 3.0), ctrl_w)
    # the same faults on a carrier whose parameters are ALL fixed (nothing to estimate - the description is still ill-formed)
    gcls = S.classes()["gamma"]
    gdata = np.abs(rng.gamma(2.0, 1.5, 300)) + 0.01

    def fixed_dist():
        return gcls(f_a=2.0, f_loc=0.0, f_scale=1.5)

    ctrl_fixed = control(lambda: fixed_dist().fit(gdata, "mle"))
    judge([Fault("unknown-fit-method", 0, "all-parameters-fixed")], lambda: fixed_dist().fit(gdata, "least-squares-ish"), ctrl_fixed)
    ctrl_fixed_m = control(lambda: GlobalHierarchicalModel([{"distribution": fixed_dist()}]).fit(gdata.reshape(-1, 1), [{"method": "mle"}]))
    judge([Fault("unknown-fit-method", 0, "all-parameters-fixed-in-a-model")], lambda: GlobalHierarchicalModel([{"distribution": fixed_dist()}]).fit(gdata.reshape(-1, 1), [{"method": "bogus"}]), ctrl_fixed_m)
    judge([Fault("fit-description-without-method", 0, "all-parameters-fixed-in-a-model")], lambda: GlobalHierarchicalModel([{"distribution": fixed_dist()}]).fit(gdata.reshape(-1, 1), [{"weights": None}]), ctrl_fixed_m)
    # too few intervals
    if n >= 2 and any(c is not None for c in case["structure"]):
        from virocon import NumberOfIntervalsSlicer

        def op_few():
            ds = _fit_descs_model(fit_spec)
            for d in ds:
                d["intervals"] = NumberOfIntervalsSlicer(n_intervals=5, min_n_points=10**6, min_n_intervals=3)
            return GlobalHierarchicalModel(ds).fit(fdata, _fit_descs(fit_spec))

        judge([Fault("too-few-intervals", 0)], op_few, ctrl_fit)



def _slicer_group(ctx, rng, judge, control):
    # ---------------- slicers ----------------
    from virocon import NumberOfIntervalsSlicer, PointsPerIntervalSlicer, WidthOfIntervalSlicer

    sl_data = np.abs(rng.weibull(1.5, 300)) * 3
    for name, mk_ok, mk_kw, mk_ref, mk_type in (
        ("woi", lambda: WidthOfIntervalSlicer(0.5, min_n_points=1), lambda: WidthOfIntervalSlicer(0.5, min_points=3), lambda: WidthOfIntervalSlicer(0.5, reference="middle", min_n_points=1), lambda: WidthOfIntervalSlicer(0.5, reference=3.5, min_n_points=1)),
        ("noi", lambda: NumberOfIntervalsSlicer(5, min_n_points=1), lambda: NumberOfIntervalsSlicer(5, width=2), lambda: NumberOfIntervalsSlicer(5, reference="centre", min_n_points=1), lambda: NumberOfIntervalsSlicer(5, reference=None, min_n_points=1)),
        ("ppi", lambda: PointsPerIntervalSlicer(20, min_n_points=1), lambda: PointsPerIntervalSlicer(20, right_open=True), lambda: PointsPerIntervalSlicer(20, reference="center", min_n_points=1), lambda: PointsPerIntervalSlicer(20, reference=2, min_n_points=1)),
    ):
        c_ok = control(lambda: mk_ok().slice_(sl_data))
        judge([Fault("slicer-unknown-kwarg", 0, name)], mk_kw, c_ok)
        judge([Fault("slicer-unknown-reference-keyword", 0, name)], lambda mk=mk_ref: mk().slice_(sl_data), c_ok)
        judge([Fault("slicer-reference-wrong-type", 0, name)], lambda mk=mk_type: mk().slice_(sl_data), c_ok)
    # an unknown option is unknown whatever its value (None, 0, False, an empty tuple)
    from virocon import NumberOfIntervalsSlicer as _N, PointsPerIntervalSlicer as _P, WidthOfIntervalSlicer as _W

    c_okw = control(lambda: _W(0.5, min_n_points=5).slice_(sl_data))
    for val in (None, 0, False, ()):
        judge([Fault("slicer-unknown-kwarg", 0, f"woi/min_n_point={val!r}")], lambda val=val: _W(0.5, min_n_point=val), c_okw)
        judge([Fault("slicer-unknown-kwarg", 0, f"noi/foo={val!r}")], lambda val=val: _N(5, foo=val), c_okw)
        judge([Fault("slicer-unknown-kwarg", 0, f"ppi/min_intervals={val!r}")], lambda val=val: _P(50, min_intervals=val), c_okw)
    # too few intervals for the declared minimum - single calls and a slicer OBJECT that has seen a narrow data set before
    from virocon import WidthOfIntervalSlicer

    wide = np.abs(rng.weibull(1.5, 600)) * 2.0 + 0.01
    two = np.r_[rng.uniform(0.05, 0.45, 200), rng.uniform(0.55, 0.95, 200)]  # two populated intervals of width 0.5
    narrow = rng.uniform(0.05, 0.45, 300)
    c_w = control(lambda: WidthOfIntervalSlicer(0.5, min_n_points=20, min_n_intervals=3).slice_(wide))
    judge([Fault("too-few-intervals", 0, "width-slicer-two-populated-intervals")], lambda: WidthOfIntervalSlicer(0.5, min_n_points=20, min_n_intervals=3).slice_(two), c_w)
    judge([Fault("too-few-intervals", 0, "width-slicer-narrow-value-range")], lambda: WidthOfIntervalSlicer(0.5, value_range=(0, 0.4), min_n_points=20, min_n_intervals=3).slice_(wide), c_w)
    judge([Fault("too-few-intervals", 0, "width-slicer-gridded-data")], lambda: WidthOfIntervalSlicer(1.0, min_n_points=1, min_n_intervals=10).slice_(np.repeat(np.arange(6.0), 30)), c_w)

    def reused():
        sl = WidthOfIntervalSlicer(0.5, min_n_points=20, min_n_intervals=3)
        try:
            sl.slice_(narrow)
        except RuntimeError:
            pass
        return sl.slice_(two)

    judge([Fault("too-few-intervals", 0, "width-slicer-reused-after-narrow-data")], reused, c_w)



def _contour_group(case, ctx, n, rng, judge, control):
    # ---------------- contours / evaluation ----------------
    from virocon import AndContour, DirectSamplingContour, HighestDensityContour, IFORMContour, OrContour

    good_spec = S.gen_spec(np.random.default_rng(case["carrier_seed"] + 2), structure=case["structure"], fams=["weibull", "lognormal", "expweib"], allow_hostile=False)
    gm = S.build_virocon(good_spec)
    gref = S.RefModel(good_spec)
    lims = [(0.0, float(gref.dim_range(i, eps=1e-4)[1])) for i in range(n)]
    dl = [(h - l) / (12 if n <= 2 else 6) for l, h in lims]
    if n <= 3:
        c_hdc = control(lambda: HighestDensityContour(gm, 0.1, limits=lims, deltas=dl))
        judge([Fault("hdc-limits-wrong-length", 0, "+1")], lambda: HighestDensityContour(gm, 0.1, limits=lims + [(0.0, 1.0)], deltas=dl), c_hdc)
        if n > 1:
            judge([Fault("hdc-limits-wrong-length", 0, "-1")], lambda: HighestDensityContour(gm, 0.1, limits=lims[:-1], deltas=dl), c_hdc)
        judge([Fault("hdc-deltas-wrong-length", 0, "+1")], lambda: HighestDensityContour(gm, 0.1, limits=lims, deltas=dl + [0.1]), c_hdc)
        if n > 1:
            judge([Fault("hdc-deltas-wrong-length", 0, "-1")], lambda: HighestDensityContour(gm, 0.1, limits=lims, deltas=dl[:-1]), c_hdc)
        for i in range(n):
            def op_np(i=i):
                l2 = list(lims)
                l2[i] = (l2[i][0], l2[i][1], 1.0)
                return HighestDensityContour(gm, 0.1, limits=l2, deltas=dl)

            judge([Fault("hdc-limits-non-pair", i)], op_np, c_hdc)

            def op_sc(i=i):
                l2 = list(lims)
                l2[i] = l2[i][1]
                return HighestDensityContour(gm, 0.1, limits=l2, deltas=dl)

            judge([Fault("hdc-limits-scalar-entry", i)], op_sc, c_hdc)
    pt = np.array([[float(gref.dim_range(i, eps=0.3)[1]) for i in range(n)]])
    c_pdf = control(lambda: gm.pdf(pt))
    for i in range(n):
        for bad in (np.nan, np.inf, -np.inf):
            def op_nf(i=i, bad=bad):
                p = pt.copy()
                p[0, i] = bad
                return gm.pdf(p)

            judge([Fault("non-finite-evaluation-point", i, f"pdf/{bad}")], op_nf, c_pdf)
    if n == 2:
        c_cdf = control(lambda: gm.cdf(pt))
        for i in range(n):
            def op_nfc(i=i):
                p = pt.copy()
                p[0, i] = np.nan
                return gm.cdf(p)

            judge([Fault("non-finite-evaluation-point", i, "cdf/nan")], op_nfc, c_cdf)
    if n != 2:
        two = S.build_virocon(S.spec_seastate())
        smp2 = np.abs(S.RefModel(S.spec_seastate()).sample(500, rng))
        c2 = control(lambda: DirectSamplingContour(two, 0.05, sample=smp2))
        smp = np.abs(gref.sample(500, rng))
        judge([Fault("non-2d-model-for-2d-contour", 0, "ds")], lambda: DirectSamplingContour(gm, 0.05, sample=smp), c2)
        judge([Fault("non-2d-model-for-2d-contour", 0, "and")], lambda: AndContour(gm, 0.05, sample=smp), c2)
        judge([Fault("non-2d-model-for-2d-contour", 0, "or")], lambda: OrContour(gm, 0.05, sample=smp), c2)
        # ... also when the supplied sample happens to have two columns, and when no sample is supplied
        for nm, cls_ in (("ds", DirectSamplingContour), ("and", AndContour), ("or", OrContour)):
            judge([Fault("non-2d-model-for-2d-contour", 0, nm + "/2-column-sample")], lambda cls_=cls_: cls_(gm, 0.05, sample=smp2), c2)
            judge([Fault("non-2d-model-for-2d-contour", 0, nm + "/2-column-list")], lambda cls_=cls_: cls_(gm, 0.05, sample=smp2.tolist()), c2)
            judge([Fault("non-2d-model-for-2d-contour", 0, nm + "/no-sample")], lambda cls_=cls_: cls_(gm, 0.05, n=300), c2)
    c_if = control(lambda: IFORMContour(gm, 0.05, n_points=8))
    for bad in ("string", {"model": 1}, gm.distributions[0], None, 3):
        judge([Fault("iform-wrong-model-type", 0, type(bad).__name__)], lambda bad=bad: IFORMContour(bad, 0.05, n_points=8), c_if)



def _fit_descs_model(spec):
    from virocon import PointsPerIntervalSlicer

    out = []
    for d in spec["dims"]:
        cls = S.classes()[d["fam"]]
        # (a robust carrier: four equally filled intervals of the 600 carrier rows, whatever the tails of the data - an
        #  equal-width split left a single populated interval for one heavy-tailed carrier and the CONTROL failed)
        desc = {"distribution": cls(), "intervals": PointsPerIntervalSlicer(n_points=150, min_n_intervals=3)}
        if d.get("cond") is not None:
            from virocon import DependenceFunction

            def _lin(x, a=1.0, b=0.1):
                return a + b * x

            def _pos(x, a=0.5, b=0.01):
                return a + b * x * x

            desc["conditional_on"] = d["cond"]
            names = R.PARAMS[d["fam"]]
            desc["parameters"] = {names[0]: DependenceFunction(_lin), names[1]: DependenceFunction(_pos, bounds=[(0, None), (0, None)])}
        out.append(desc)
    return out


def coverage_extra(results, tier):
    n = sum(r.get("notes", {}).get("n_injections", 0) for r in results)
    kinds = set()
    for r in results:
        kinds.update(r.get("notes", {}).get("kinds", []))
    return {
        "evaluations": int(n),
        "distinct_nontrivial": int(n),
        "carriers": len(results),
        "fault_kinds_injected": sorted(kinds),
        "fault_kinds_in_catalogue": len(CATALOGUE),
        "fault_kinds_never_injected": sorted(set(CATALOGUE) - kinds),
    }
