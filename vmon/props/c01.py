"""C01 - IFORM / ISORM contours are the inverse-Rosenblatt image of the beta-sphere."""
import math

import numpy as np
from scipy import special as sp

from .. import distmon
from .. import monitors as M
from .. import specs as S

ID = "C01"
LEVEL = "exploration"
RULE = (
    "case = (model spec, alpha, n_points, IFORM|ISORM). Specs: all 32 conditional_on structures of n_dim 2..4 "
    "(conditional_on[i] in {None,0..i-1}) x random shipped families x random admissible dependence shapes (incl. "
    "scalar-returning constants, default-argument functions, the chained alpha3 shape); alpha log-uniform on [1e-8,0.5] plus "
    "both ends; n_points in {3,4,5,7,12,50,180} plus 2-D sweeps over hundreds of consecutive / random point counts up to 2000. The monitor on IFORMContour._compute / ISORMContour._compute maps every "
    "contour point back through the model's OWN cdfs and through the independent reference model and checks radius, "
    "direction, point count, distinct directions, 2-D angles and the 2-D IFORM maximum. Non-trivial = beta > 0 and at least "
    "one conditional variable; distinct = distinct (spec signature, alpha, n_points, method)."
    ' Also: every third case repeats the contours after the dependence parameters of the SAME model were changed in place (re-fit history); every fourth case uses the same law in other units (1e-6..1e5).'
)
ASSUMPTIONS = [
    "reference model (vmon/refmodel.py, specs.RefModel) for tail-aware Rosenblatt transforms",
    "U-space tolerance derived from double rounding of Phi(u): 1e-9 + 16*eps/phi(u) per component",
    "scipy.special.ndtri / gammainccinv for the independent beta",
]
REQUIRED = ["c01.radius-own-cdf", "c01.radius-ref", "c01.beta", "c01.count", "c01.distinct-directions"]
CASE_TIMEOUT_S = 300
NPTS = [3, 4, 5, 7, 12, 50, 180]
EPS = np.finfo(float).eps


def gen_cases(tier, seed):
    rng = np.random.default_rng([seed, 1])
    reps = 2 if tier == "quick" else 40
    structs = S.all_structures(2) + S.all_structures(3) + S.all_structures(4)
    cases = []
    for rep in range(reps):
        for st in structs:
            for method in ("iform", "isorm"):
                sub = np.random.default_rng(int(rng.integers(1 << 62)))
                spec = S.gen_spec(sub, structure=st)
                u = sub.random()
                if u < 0.08:
                    alpha = 0.5
                elif u < 0.16:
                    alpha = 1e-8
                else:
                    alpha = float(10 ** sub.uniform(-8, math.log10(0.5)))
                npts = int(NPTS[int(sub.integers(len(NPTS)))])
                if len(st) > 2 and tier == "quick" and npts == 180 and sub.random() < 0.7:
                    npts = 50
                cases.append({"spec": spec, "alpha": alpha, "n_points": npts, "method": method, "cost": 1 + (npts / 60.0) ** 2 * (len(st) > 2)})
    # 2-D point-count sweeps: the 2-D angle grid is built from n_points directly, so every count is its own input class
    n_sweeps = 4 if tier == "quick" else 40
    for k in range(n_sweeps):
        sub = np.random.default_rng(int(rng.integers(1 << 62)))
        spec = S.gen_spec(sub, structure=[None, 0] if k % 2 else [None, None])
        lo = 3 + (k % 4) * 100
        counts = list(range(lo, lo + 100)) if tier == "quick" else list(range(3, 1000)) if k % 10 == 0 else sorted(set(int(v) for v in sub.integers(3, 2000, 150)))
        cases.append({"spec": spec, "alpha": float(10 ** sub.uniform(-6, -1)), "n_points": counts[0], "n_points_sweep": counts, "method": "iform" if k % 3 else "isorm", "cost": 3})
    for k, cse in enumerate(cases):
        if k % 3 == 0:
            cse["history"] = int(rng.integers(1, 1 << 31))
    # parameter regions beyond the regular table: strongly concentrated directions (von Mises kappa 60 .. 5000)
    vrng = np.random.default_rng([seed, 1, 33])
    for k in range(4 if tier == "quick" else 40):
        kap = float([80.0, 600.0, 2000.0, 5000.0][k % 4] * vrng.uniform(0.9, 1.2))
        if k % 2 == 0:
            spec = {"dims": [{"fam": "vonmises", "params": {"kappa": kap, "mu": float(vrng.uniform(-1, 1))}}, {"fam": "normal", "cond": 0, "params": {"mu": {"shape": "linear2", "coef": [3.0, 0.4]}, "sigma": 1.2}}]}
        else:
            spec = {"dims": [{"fam": "weibull", "params": {"alpha": 2.0, "beta": 1.6, "gamma": 0.0}}, {"fam": "vonmises", "cond": 0, "params": {"kappa": {"shape": "linear2", "coef": [kap, kap / 10]}, "mu": float(vrng.uniform(-1, 1))}}]}
        cases.append({"spec": spec, "alpha": float(10 ** vrng.uniform(-6, -1)), "n_points": 24, "method": "iform" if k % 4 < 2 else "isorm", "own_only": True})
    # units as an input class (the same law with variables in micro- or kilo-units)
    urng = np.random.default_rng([seed, 1, 77])
    for k, cse in enumerate(cases):
        if k % 4 == 1 and not cse.get("own_only"):
            cse["units"] = [float(urng.choice([1e-6, 1e-3, 1e-2, 1e2, 1e3, 1e5])) for _ in cse["spec"]["dims"]]
    # the shipped test model and the OMAE V-Hs structure as fixed members
    for sp_ in (S.spec_seastate(), S.spec_omae_vhs()):
        for method in ("iform", "isorm"):
            cases.append({"spec": sp_, "alpha": 1.37e-5, "n_points": 180, "method": method})
    return cases


def _beta_ref(method, alpha, n):
    if method == "iform":
        f = lambda a: -sp.ndtri(a)
    else:
        f = lambda a: math.sqrt(2.0 * sp.gammainccinv(n / 2.0, a))
    b = float(f(alpha))
    # virocon evaluates ppf(1 - alpha): 1 - alpha is rounded (relative error eps/alpha in alpha)
    da = 4 * EPS
    lo, hi = float(f(min(alpha + da, 1.0))), float(f(max(alpha - da, 1e-300)))
    return b, abs(hi - lo) + 1e-12 * max(1.0, b)


def _phi(u):
    return np.exp(-0.5 * u * u) / math.sqrt(2 * math.pi)


K_ROUND = 64  # calibrated: observed max 12.4 (generalised gamma) over seeds 0..2 at alpha <= 1e-5


def _tol_u(U):
    # rounding of Phi(u) near one moves u by eps/phi(u); below zero Phi(u) is small and exact
    up = np.maximum(U, 0.0)
    return 1e-9 + K_ROUND * EPS / _phi(up)


def _tol_matrix(ref, spec, X, U):
    """Per point and component: rounding of Phi(u) + representability of x (the reference's own change
    of u over +-4 ulp of x, which covers non-zero locations) + the absolute accuracy of a circular cdf."""
    T = _tol_u(U)
    for i in range(X.shape[1]):
        Xp, Xm = X.copy(), X.copy()
        step = 4 * np.spacing(np.abs(X[:, i]))
        Xp[:, i] = X[:, i] + step
        Xm[:, i] = X[:, i] - step
        with np.errstate(all="ignore"):
            up = ref.rosenblatt(Xp)[:, i]
            um = ref.rosenblatt(Xm)[:, i]
        rep = np.abs(up - um)
        rep = np.where(np.isfinite(rep), rep, 0.0)
        T[:, i] += rep
        if spec["dims"][i]["fam"] == "vonmises":
            T[:, i] += 1e-12 / _phi(U[:, i])
    return T


def _own_rosenblatt(model, X):
    """Statement-literal: through the model's own marginal/conditional cdfs."""
    n, d = X.shape
    U = np.empty_like(X)
    for i in range(d):
        c = model.conditional_on[i]
        if c is None:
            F = np.asarray(model.distributions[i].cdf(X[:, i]), float)
        else:
            F = np.asarray(model.distributions[i].cdf(X[:, i], given=X[:, c]), float)
        with np.errstate(all="ignore"):
            U[:, i] = sp.ndtri(F)
    return U


def _post(method):
    def post(call):
        c = M.current()
        if c is None or call.exc is not None:
            return
        con = call.self
        model = con.model
        if type(model).__name__ != "GlobalHierarchicalModel":
            return
        # (own_only: a parameter region in which the independent reference is not claimed to be exact - strongly
        #  concentrated von Mises, where scipy itself switches to an approximation - is judged statement-literally,
        #  through the model's own cdfs only)
        spec = None if c.case.get("own_only") else c.case.get("spec")
        alpha, n_points = con.alpha, con.n_points
        X = np.asarray(con.coordinates, float)
        d = model.n_dim
        info = {"method": method, "alpha": alpha, "n_points": n_points, "structure": model.conditional_on}

        # ---- beta ----
        b_ref, b_tol = _beta_ref(method, alpha, d)
        c.check("c01.beta", abs(con.beta - b_ref) <= b_tol, f"{method}: beta differs from its definition", got=float(con.beta), want=b_ref, **info)
        beta = b_ref

        # ---- count / shape ----
        c.check("c01.count", X.shape == (n_points, d), f"{method}: coordinates do not have shape (n_points, n_dim)", shape=list(X.shape), **info)
        if X.ndim != 2 or X.shape[1] != d or X.shape[0] == 0:
            return
        if not np.all(np.isfinite(X)):
            c.check("c01.finite", False, f"{method}: non-finite contour coordinates", **info)
            return

        # ---- U through the model's own cdfs ----
        U_own = _own_rosenblatt(model, X)
        fin = np.all(np.isfinite(U_own), axis=1)
        # own cdf == 1.0 in the far upper tail cannot be inverted (no sf in the API): judged by the reference there
        Uo = np.where(fin[:, None], U_own, 0.0)
        if spec is not None:
            tol_own = 2 * _tol_matrix(S.RefModel(spec), spec, X, Uo).sum(axis=1)
        else:
            tol_own = 4 * _tol_u(Uo).sum(axis=1)
        r_own = np.linalg.norm(Uo, axis=1)
        ok = (~fin) | (np.abs(r_own - beta) <= tol_own)
        c.check(
            "c01.radius-own-cdf",
            bool(np.all(ok)),
            f"{method}: contour point not at distance beta in standard-normal space (model's own cdfs)",
            worst_radius=float(r_own[np.argmin(ok)]),
            beta=beta,
            point=X[np.argmin(ok)].tolist(),
            **info,
        )
        c.count("c01.points", int(X.shape[0]))
        c.count("c01.points-own-cdf-saturated", int(np.sum(~fin)))

        # ---- U through the independent reference ----
        if spec is not None:
            ref = S.RefModel(spec)
            U = ref.rosenblatt(X)
            T = _tol_matrix(ref, spec, X, U)
            tol = T.sum(axis=1)
            r = np.linalg.norm(U, axis=1)
            ok = np.abs(r - beta) <= tol
            c.check(
                "c01.radius-ref",
                bool(np.all(ok)),
                f"{method}: contour point not at distance beta (reference Rosenblatt transform)",
                worst_radius=float(r[np.argmin(ok)]),
                beta=beta,
                point=X[np.argmin(ok)].tolist(),
                **info,
            )
        else:
            U = np.where(fin[:, None], U_own, np.nan)
            T = 4 * _tol_u(np.where(fin[:, None], U_own, 0.0))

        # ---- directions ----
        sph = np.asarray(con.sphere_points, float)
        c.check("c01.sphere-shape", sph.shape == (n_points, d), f"{method}: sphere_points shape", shape=list(sph.shape), **info)
        if sph.shape != (n_points, d):
            return
        if beta > 1e-9:
            unit = sph / beta
            nrm = np.linalg.norm(unit, axis=1)
            c.check("c01.unit-sphere", bool(np.all(np.abs(nrm - 1) <= 1e-9)), f"{method}: sphere_points are not on the beta-sphere", worst=float(nrm[np.argmax(np.abs(nrm - 1))]), **info)
            # images equal the sphere points (same order)
            okd = np.all((np.abs(U - sph) <= T) | ~np.isfinite(U), axis=1)
            c.check(
                "c01.image-equals-sphere-point",
                bool(np.all(okd)),
                f"{method}: standard-normal image of a contour point is not its sphere point",
                image=U[np.argmin(okd)].tolist(),
                sphere_point=sph[np.argmin(okd)].tolist(),
                **info,
            )
            # distinct directions
            G = unit @ unit.T
            np.fill_diagonal(G, -1.0)
            mx = float(G.max()) if n_points > 1 else -1.0
            c.check("c01.distinct-directions", mx < 1 - 5e-13, f"{method}: two contour points share one direction", max_cos=mx, **info)
            if d == 2:
                ang = np.mod(np.arctan2(unit[:, 1], unit[:, 0]), 2 * math.pi)
                want = 2 * math.pi * np.arange(n_points) / n_points
                da = np.abs(ang - want)
                da = np.minimum(da, 2 * math.pi - da)
                c.check("c01.angles-2d", bool(np.all(da <= 1e-9)), f"{method}: 2-D directions are not 2*pi*k/n from the positive first axis", worst=float(da.max()), **info)
        # ---- 2-D IFORM: max of the first variable is its marginal (1-alpha)-quantile ----
        if method == "iform" and d == 2 and spec is not None:
            from .. import refmodel as R

            fam = spec["dims"][0]["fam"]
            p0 = spec["dims"][0]["params"]
            tu = float(T[int(np.argmax(X[:, 0])), 0])
            lo = float(R.isf(fam, sp.ndtr(-(beta - tu)), **p0))
            hi = float(R.isf(fam, sp.ndtr(-(beta + tu)), **p0))
            lo, hi = min(lo, hi), max(lo, hi)
            mx = float(X[:, 0].max())
            pad = 1e-12 * max(1.0, abs(mx))
            c.check("c01.max-is-marginal-quantile", lo - pad <= mx <= hi + pad, "2-D IFORM: max of the first variable is not its marginal (1-alpha)-quantile", got=mx, want=[lo, hi], **info)
            own_q = float(model.distributions[0].icdf(1 - alpha))
            c.check("c01.max-is-own-icdf", abs(mx - own_q) <= 1e-9 * max(1.0, abs(own_q)) + (hi - lo), "2-D IFORM: max of the first variable differs from distributions[0].icdf(1-alpha)", got=mx, want=own_q, **info)

    return post


_DONE = [False]


def install():
    distmon.install()
    if _DONE[0]:
        return
    _DONE[0] = True
    from virocon import IFORMContour, ISORMContour

    M.wrap(IFORMContour, "_compute", post=_post("iform"), tag="c01")
    M.wrap(ISORMContour, "_compute", post=_post("isorm"), tag="c01")


def run_case(case, ctx):
    from virocon import IFORMContour, ISORMContour

    spec = case["spec"]
    if case.get("units"):
        scaled = S.rescale_spec(spec, case["units"])
        if scaled is not None:
            spec = case["spec"] = scaled  # (the contour monitor reads the spec of the running case)
            ctx.cls("units", "rescaled")
    model = S.build_virocon(spec)
    ctx.cls("structure", [d.get("cond") for d in spec["dims"]])
    ctx.cls("n_dim", len(spec["dims"]))
    for d in spec["dims"]:
        ctx.cls("family:" + d["fam"], True)
    ctx.cls("method", case["method"])
    cls = IFORMContour if case["method"] == "iform" else ISORMContour
    for npts in case.get("n_points_sweep", [])[1:]:
        cls(model, case["alpha"], n_points=int(npts))  # judged by the monitor
    if case.get("n_points_sweep"):
        ctx.cls("n_points-sweep", f"{case['n_points_sweep'][0]}..{case['n_points_sweep'][-1]}")
        ctx.count("c01.sweep-contours", len(case["n_points_sweep"]))
    con = cls(model, case["alpha"], n_points=case["n_points"])
    if case.get("history") and any(d.get("cond") is not None for d in spec["dims"]):
        # call history: the SAME model object gets other dependence parameters (what a re-fit does), then contours
        # again (same and another alpha, both methods): they must be contours of the CURRENT parameters
        first = np.asarray(con.coordinates, float).copy()
        nchg = S.change_in_place(model, spec, np.random.default_rng(case["history"]))
        if nchg:
            ctx.cls("history", "dependence-parameters-changed-in-place")
            ctx.count("c01.history-contours")
            for cls2, a2 in ((cls, case["alpha"]), (cls, min(0.4, case["alpha"] * 7)), (ISORMContour if cls is IFORMContour else IFORMContour, case["alpha"])):
                con2 = cls2(model, a2, n_points=case["n_points"])  # judged by the monitor against the updated spec
            ctx.notes["history_changed"] = nchg
    ctx.sig = f"{S.spec_signature(spec)}|{case['alpha']:.6g}|{case['n_points']}|{case['method']}"
    ctx.nontrivial = case["alpha"] < 0.5 and any(d.get("cond") is not None for d in spec["dims"])
    ctx.sample = {"signature": S.spec_signature(spec), "alpha": case["alpha"], "n_points": case["n_points"], "method": case["method"], "first_point": np.asarray(con.coordinates)[0].tolist()}
