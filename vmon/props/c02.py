"""C02 - the highest-density contour encloses the highest-density region of content 1-alpha."""
from .. import hdc_common as H

ID = "C02"
LEVEL = "exploration"
RULE = (
    "case = (2-D or 3-D model spec over all dependence structures and families, alpha log-uniform in [1e-6,0.3], grid: 10..400 cells per axis in 2-D "
    "(anisotropy up to 10), 10..60 (120 thorough) in 3-D, limits from reference quantiles as tuples/lists, deltas as scalar/list/ndarray, deliberately "
    "too-small limits (warning path), default limits/deltas in 2-D, a bimodal model). Monitors capture the cell-probability array, the HDR mask and the "
    "last-added probability at cumsum_biggest_until, and fm / cell centres at _compute; the oracle recomputes every cell probability from the REFERENCE "
    "cdfs, checks the prefix/tie rule, both content inequalities (math.fsum, slack N*eps), fm, warning <=> grid content < 1-alpha and the region "
    "recomputed from the public fm. Non-trivial = >= 100 cells and a conditional variable; distinct = (spec signature, alpha, grid, forms)."
    ' Also: one 3-D grid above 2**24 cells per run, unit-rescaled specs, a user-defined mixture family (modes side by side, 2x2, a second region of 1-3 cells found in a second pass), default grids over a variable with mass below zero, two contours in one warnings context, an oblique one-cell ridge.'
)
ASSUMPTIONS = [
    "reference cdfs (refmodel.py); conditional distributions evaluated at the centre of the conditioning cell, as documented",
    "ties at the threshold: the enclosed region is the mask the code selected; it must lie between {p > p_m} and {p >= p_m}",
    "default 3-D grid (400^3 cells) is not run (does not fit the budget)",
    "a grid so coarse that the densest cell alone exceeds 1-alpha raises IndexError (no result): counted, not judged",
]
REQUIRED = ["c02.cell-prob", "c02.content-at-most", "c02.content-misses-by-less-than-next-cell", "c02.fm", "c02.warning-iff-grid-too-small", "c02.inside-denser-than-outside"]
CASE_TIMEOUT_S = 900


def gen_cases(tier, seed):
    return H.gen_cases(tier, seed, 2)


install = H.install


def run_case(case, ctx):
    H.run(case, ctx, "C02")
