"""C04 - AND/OR contour points have empirical exceedance alpha within allowed_error."""
import math
import warnings

import numpy as np

from .. import monitors as M
from .. import specs as S

ID = "C04"
LEVEL = "exploration"
RULE = (
    "case = (AND|OR, non-negative 2-D sample of n >= 200 from a random 2-D model - optionally rounded to 0.1/0.01 and with exact zeros in either variable -, "
    "alpha in [1e-3,0.2], deg_step in [1,30], allowed_error in [0.005,0.2], lowest/highest_theta variations for OR). The guarded per-ray probe reports theta, "
    "the searched point and the iteration count of every ray (also of OR points dropped afterwards); the oracle recomputes the exceedance fraction from "
    "(sample, point) with the documented strict inequalities, checks the ray angle, capped <=> 100 iterations and UserWarning, the precision of every "
    "non-capped point, the point sequence against arange, the OR keep/drop rule (unaltered) and both closing sequences. Non-trivial = at least one non-capped ray; "
    "distinct = (sample seed, method, alpha, deg_step, allowed_error, thetas)."
    ' Also: variables of very different magnitudes (units), sample memory layouts.'
)
ASSUMPTIONS = [
    "guarded probes and_ray / or_ray (VIROCON_VERIF=1) locate the per-ray search result; the verdict is recomputed from the sample and the point",
    "'unless the warning is emitted' is applied per ray: a ray that ended at the iteration cap is exempt from the precision clause, and then the UserWarning must have been emitted",
]
REQUIRED = ["c04.probe-rays", "c04.precision", "c04.on-ray", "c04.closure", "c04.sequence"]
CASE_TIMEOUT_S = 600

RAYS = []


def _sink(name, data):
    if name in ("and_ray", "or_ray"):
        RAYS.append((name, {k: (np.asarray(v, float).ravel()[0] if k in ("x", "y") else v) for k, v in data.items()}))


def install():
    from virocon import _verif

    _verif.set_sink(_sink)


def gen_cases(tier, seed):
    rng = np.random.default_rng([seed, 4])
    n = 90 if tier == "quick" else 2000
    cases = []
    for i in range(n):
        cases.append(
            {
                "method": "and" if i % 2 == 0 else "or",
                "alpha": float(10 ** rng.uniform(-3, math.log10(0.2))),
                "deg_step": float(rng.choice([1, 2, 3, 5, 7.5, 10, 15, 30])) if rng.random() < 0.8 else float(rng.uniform(1, 30)),
                "allowed_error": float(10 ** rng.uniform(math.log10(0.005), math.log10(0.2))),
                "n": int(np.exp(rng.uniform(math.log(200), math.log(2e5 if tier == "thorough" else 5e4)))),
                "round": [None, 1, 2][int(rng.integers(3))],
                "zeros": str(rng.choice(["none", "y", "x", "both"])),
                "thetas": [None, (0, 90), (5, 85), (10, 45), (30, 80)][int(rng.integers(5))],
                "sub": int(rng.integers(1 << 31)),
            }
        )
    for i in range(6 if tier == "quick" else 60):
        cases.append({"method": "and" if i % 2 else "or", "alpha": float(10 ** rng.uniform(-2.3, -0.8)), "deg_step": float(rng.choice([5, 10, 15])), "allowed_error": 0.05, "n": None, "round": None, "zeros": "none", "thetas": None, "sub": int(rng.integers(1 << 31))})
    return cases


def run_case(case, ctx):
    from virocon import AndContour, OrContour

    rng = np.random.default_rng(case["sub"])
    spec = S.gen_spec(rng, structure=[None, 0], nonneg=True, allow_hostile=False)
    model = S.build_virocon(spec)
    ref = S.RefModel(spec)
    n = case["n"]
    if n is None:
        # no sample supplied: the contour draws n = int(100/alpha) points itself (observed through the model's draw_sample)
        from virocon import AndContour, OrContour

        alpha, ds, ae, method = case["alpha"], case["deg_step"], case["allowed_error"], case["method"]
        ctx.cls("method", method)
        ctx.cls("zeros", "drawn-by-contour")
        ctx.sig = f"{method}|drawn|{case['sub']}|{alpha:.5g}"
        RAYS.clear()
        with warnings.catch_warnings():
            warnings.simplefilter("ignore")
            try:
                con = (AndContour if method == "and" else OrContour)(model, alpha, deg_step=ds, allowed_error=ae)
            except IndexError:
                ctx.count("c04.or-all-points-dropped-no-contour")
                return
        smp = np.asarray(con.sample, float)
        ctx.check("c04.sample-size", smp.shape == (int(100 / alpha), 2), f"{method}: no sample supplied - the number of points drawn is not int(100/alpha)", got=list(smp.shape), want=int(100 / alpha))
        rays = [d for nm, d in RAYS if nm == f"{method}_ray"]
        ctx.count("c04.probe-rays", len(rays))
        x, y = smp[:, 0], smp[:, 1]
        for r in rays:
            px, py = float(r["x"]), float(r["y"])
            pe = float(np.mean((x > px) & (y > py))) if method == "and" else float(np.mean((x > px) | (y > py)))
            ctx.check("c04.reported-pe", abs(pe - float(r["pe"])) <= 1e-12, f"{method}: the exceedance fraction used by the search is not the exceedance of the drawn sample", theta=float(r["theta"]), recomputed=pe, used=float(r["pe"]))
            if r["iterations"] < r["max_iterations"]:
                ctx.check("c04.precision", abs(pe - alpha) / alpha <= ae * (1 + 1e-12), f"{method}: exceedance of a searched point differs from alpha by more than allowed_error*alpha (drawn sample)", theta=float(r["theta"]), pe=pe, alpha=alpha)
        ctx.nontrivial = bool(rays)
        ctx.sample = {"method": method, "alpha": alpha, "n_drawn": int(len(smp)), "n_rays": len(rays)}
        return
    sample = ref.sample(n, rng)
    sample = np.abs(sample[np.all(np.isfinite(sample), axis=1)])
    # units as an input class: variables of very different magnitudes (metres against millimetres, seconds against hours)
    unit = [(1.0, 1.0), (1.0, 1.0), (1e-3, 1.0), (1.0, 1e3), (1e2, 1e-2), (1.0, 1.0)][int(case["sub"]) % 6]
    if unit != (1.0, 1.0) and case["round"] is None:
        sample = sample * np.array(unit)
        ctx.cls("units", f"{unit[0]:g}x{unit[1]:g}")
    if case["round"] is not None:
        sample = np.round(sample, case["round"])
    if case["zeros"] in ("y", "both"):
        sample[rng.choice(len(sample), max(1, len(sample) // 15), replace=False), 1] = 0.0
    if case["zeros"] in ("x", "both"):
        sample[rng.choice(len(sample), max(1, len(sample) // 15), replace=False), 0] = 0.0
    alpha, ds, ae = case["alpha"], case["deg_step"], case["allowed_error"]
    method = case["method"]
    ctx.cls("method", method)
    ctx.cls("zeros", case["zeros"])
    ctx.cls("round", case["round"])
    ctx.sig = f"{method}|{case['sub']}|{alpha:.5g}|{ds}|{ae:.4g}|{case['thetas']}"
    RAYS.clear()
    kw = {}
    if method == "or" and case["thetas"] is not None:
        kw = {"lowest_theta": case["thetas"][0], "highest_theta": case["thetas"][1]}
    # dtype of the caller's sample: counts / binned data stored as integers, single precision
    sdt = ["float64", "float64", "int64", "float64", "float32", "int32", "float64"][(int(case["sub"]) // 3) % 7]
    ctx.cls("sample-dtype", sdt)
    if sdt.startswith("int"):
        sample = np.round(sample * (10.0 if np.ptp(sample[:, 0]) < 50 else 1.0)).astype(sdt)
    elif sdt == "float32":
        sample = sample.astype(np.float32)
    # memory layout of the caller's sample: row-major, column-major, transposed view
    layout = ["C", "F", "transposed", "C"][(int(case["sub"]) // 7) % 4]
    ctx.cls("sample-layout", layout)
    if layout == "F":
        sample = np.asfortranarray(sample)
    elif layout == "transposed":
        sample = np.array([sample[:, 0], sample[:, 1]]).T
    before = sample.copy()
    with warnings.catch_warnings(record=True) as rec:
        warnings.simplefilter("always")
        cls = AndContour if method == "and" else OrContour
        try:
            con = cls(model, alpha, deg_step=ds, sample=sample, allowed_error=ae, **kw)
        except IndexError:
            # OR: when every searched point lies beyond 1.1 x the sample maximum nothing is left to close the contour
            # ("no result", outside the property); verified from the probes, otherwise re-raised as a violation
            rays_ = [d for nm, d in RAYS if nm == "or_ray"]
            xm_, ym_ = 1.1 * np.max(before[:, 0]), 1.1 * np.max(before[:, 1])
            if method == "or" and rays_ and all(not (float(r["x"]) < xm_ and float(r["y"]) < ym_) for r in rays_):
                ctx.count("c04.or-all-points-dropped-no-contour")
                ctx.sample = {"method": method, "note": "all OR points beyond 1.1 x sample maximum: IndexError, not judged"}
                return
            raise
    warned = sum(1 for w in rec if issubclass(w.category, UserWarning) and "Could not achieve the required precision" in str(w.message))
    rays = [d for nm, d in RAYS if nm == f"{method}_ray"]
    # (the oracle compares in double precision - the conversion of an int / float32 sample is exact - so that a Python
    #  float on the other side of a comparison is not rounded to the sample's dtype)
    x, y = before[:, 0].astype(np.float64), before[:, 1].astype(np.float64)
    info = {"method": method, "alpha": alpha, "deg_step": ds, "allowed_error": ae, "n": int(len(before)), "zeros": case["zeros"], "round": case["round"]}
    coords = np.array([[float(np.asarray(a).ravel()[0]) for a in row] for row in np.asarray(con.coordinates, dtype=object)], float)
    ctx.sample = {**info, "n_rays": len(rays), "warned": warned, "first_points": coords[:3].tolist()}
    if not rays:
        ctx.inconcl("per-ray probe not reached (VIROCON_VERIF off or probe removed)")
        return
    ctx.count("c04.probe-rays", len(rays))
    # expected rays
    if method == "and":
        thetas = np.arange(0, 90, ds)
    else:
        lo, hi = (10, 80) if case["thetas"] is None else case["thetas"]
        thetas = np.arange(lo, hi, ds)
    ctx.check("c04.sequence", len(rays) == len(thetas) and all(abs(r["theta"] - t) <= 1e-9 for r, t in zip(rays, thetas)), "the searched rays are not arange(lowest, highest, deg_step)", got=[r["theta"] for r in rays][:5], want=thetas[:5].tolist(), **info)
    n_capped = 0
    noncapped = 0
    for r in rays:
        px, py, th = float(r["x"]), float(r["y"]), float(r["theta"])
        capped = r["iterations"] >= r["max_iterations"]
        n_capped += capped
        # on the ray
        if th == 0:
            on = py == 0.0 and px >= 0
        else:
            ang = math.degrees(math.atan2(py, px))
            on = abs(ang - th) <= 1e-7 and (px > 0 or py > 0)
        ctx.check("c04.on-ray", on, f"{method}: searched point is not on its ray from the origin", theta=th, point=[px, py], **info)
        if method == "and":
            pe = float(np.mean((x > px) & (y > py)))
        else:
            pe = float(np.mean((x > px) | (y > py)))
        ctx.check("c04.reported-pe", abs(pe - float(r["pe"])) <= 1e-12, f"{method}: the exceedance fraction used by the search is not the documented strict {'AND' if method == 'and' else 'OR'} exceedance of the sample", theta=th, point=[px, py], recomputed=pe, used=float(r["pe"]), **info)
        if not capped:
            noncapped += 1
            ctx.check("c04.precision", abs(pe - alpha) / alpha <= ae * (1 + 1e-12), f"{method}: exceedance of a searched point differs from alpha by more than allowed_error*alpha although the iteration cap was not hit", theta=th, point=[px, py], pe=pe, iterations=r["iterations"], **info)
    ctx.nontrivial = noncapped > 0
    ctx.check("c04.cap-warning", (n_capped > 0) == (warned > 0) and warned == n_capped, "rays ended at the iteration cap <=> 'could not achieve the required precision' UserWarning", capped_rays=int(n_capped), warnings=warned, **info)
    ctx.check("c04.sample-untouched", np.array_equal(sample, before), f"{method}: the supplied sample was modified", **info)
    pts = np.array([[float(r["x"]), float(r["y"])] for r in rays])
    if method == "and":
        want = np.vstack([pts, [[0.0, 0.0]]])
        ctx.check("c04.closure", coords.shape == want.shape and np.array_equal(coords, want), "AND: coordinates are not the searched points followed by (0, 0)", got_tail=coords[-2:].tolist(), n_got=int(len(coords)), n_want=int(len(want)), **info)
    else:
        xm, ym = 1.1 * np.max(x), 1.1 * np.max(y)
        keep = (pts[:, 0] < xm) & (pts[:, 1] < ym)
        kept = pts[keep]
        if len(kept) == 0:
            ctx.count("c04.or-all-dropped")
            return
        want = np.vstack([kept, [[0.0, kept[-1, 1]]], [[0.0, 0.0]], [[kept[0, 0], 0.0]]])
        ctx.check("c04.or-keep-rule", len(coords) == len(want) and np.array_equal(coords[: len(kept)], kept), "OR: the points kept are not exactly the searched points below 1.1 x the sample maximum, unaltered and in order", n_kept_expected=int(len(kept)), n_returned=int(len(coords)) - 3, dropped=int((~keep).sum()), **info)
        ctx.check("c04.closure", coords.shape == want.shape and np.array_equal(coords[-3:], want[-3:]), "OR: the contour is not closed by (0, y_last), (0, 0), (x_first, 0)", got_tail=coords[-3:].tolist(), want_tail=want[-3:].tolist(), **info)
