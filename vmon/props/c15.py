"""C15 - HDC coordinates are exactly the boundary cells of the enclosed region; the sorter returns a permutation."""
from .. import hdc_common as H

ID = "C15"
LEVEL = "exploration"
RULE = (
    "HDC cases as in C02 (2-D/3-D specs, alpha 1e-6..0.3, isotropic and anisotropic cell sizes up to ratio 10, default and explicit limits, a bimodal "
    "model): the boundary-cell set and its 3^n-connected components are recomputed by the harness from the captured HDR mask with explicit neighbour "
    "shifts and a BFS and compared as multisets with the returned coordinates. Sorter cases: planar point sets (circle, anisotropic ellipse, irregular "
    "spacing, clusters, collinear, duplicates, anisotropic grid ring, two rings) in random order, both search_for_optimal_start values; the monitor on the "
    "sorter (both bindings) demands a permutation of the input. Non-trivial = a conditional model with >= 100 cells, or >= 5 points; distinct by signature."
    ' Also (shared workload with C02): a grid above 2**24 cells, a user-defined mixture family (modes side by side, 2x2, a second region of 1-3 cells), an oblique one-cell ridge, sorter inputs of 1 and 2 points.'
)
ASSUMPTIONS = [
    "boundary cell = region cell with one of its 3^n-1 neighbours outside the region or outside the grid",
    "a region with a hole has two boundary components; 'one set per region' is not judged for such regions (counted)",
]
REQUIRED = ["c15.coordinates-are-boundary-cells", "c15.sorter-permutation", "c15.no-duplicates"]
CASE_TIMEOUT_S = 900


def gen_cases(tier, seed):
    return H.gen_cases(tier, seed, 15) + H.sorter_cases(tier, seed)


install = H.install


def run_case(case, ctx):
    if case.get("kind") == "sorter":
        H.run_sorter(case, ctx)
    else:
        H.run(case, ctx, "C15")
