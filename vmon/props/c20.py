"""C20 - exported, plotted and loaded data are exactly the computed / stored values."""
import math
import os
import shutil
import tempfile
import warnings

import numpy as np

from .. import monitors as M
from .. import specs as S

ID = "C20"
LEVEL = "exploration"
RULE = (
    "cases: (save) contours of all six classes in 2-D and IFORM/ISORM/HDC in 3-D, arbitrary semantics strings (unicode, ';' free), paths with/without "
    "extension and with dots in directory names; (plot) plot_2D_contour for all six classes x swap_axis x sample None/array x design_conditions None/True/array, "
    "plot_dependence_functions, plot_2D_isodensity (swap, limits, levels), plot_histograms_of_interval_distributions, plot_marginal_quantiles on fitted models; "
    "(read) synthetic benchmark-format files of 1..1e4 rows. Monitors: the save monitor re-reads the written file; recording wrappers on "
    "matplotlib Axes.plot/scatter/contour/hist capture what is handed to matplotlib (Agg), and the drawn Line2D/PathCollection data are read back; the reader's "
    "DataFrame is compared with the rows written. Non-trivial = at least 3 contour points / data rows; distinct = (kind, contour class or plot, options, seed)."
    ' Also: reader files with repeated and unsorted time stamps.'
)
ASSUMPTIONS = ["matplotlib Agg backend; what reaches Axes.plot/scatter/contour/hist is what is drawn", "written values are compared to the 6 decimals of the format (|diff| <= 0.5e-6 + 1e-12*|v|)"]
REQUIRED = ["c20.save-rows", "c20.save-header", "c20.plot-contour-line", "c20.reader-rows", "c20.depfunc-line", "c20.isodensity-Z"]
CASE_TIMEOUT_S = 600

REC = {"plot": [], "scatter": [], "contour": [], "hist": []}


def _rec(kind):
    def post(call):
        if M.current() is None or call.exc is not None:
            return
        REC[kind].append((call.self, call.args, dict(call.kwargs)))

    return post


def _post_save(call):
    c = M.current()
    if c is None:
        return
    contour = call.args[0]
    path = call.args[1] if len(call.args) > 1 else call.kwargs.get("file_path")
    sem = call.kwargs.get("semantics", call.args[2] if len(call.args) > 2 else None)
    if call.exc is not None:
        c.check("c20.save-no-exception", False, f"save_contour_coordinates raised {type(call.exc).__name__}", message=str(call.exc)[:200], contour_class=type(contour).__name__)
        return
    root, ext = os.path.splitext(path)
    real = path if ext else path + ".txt"
    c.check("c20.save-path", os.path.isfile(real) and (bool(ext) or not os.path.exists(path) or os.path.isdir(path)), "file not written at the documented path ('.txt' appended iff the path has no extension)", path=path, expected=real)
    if not os.path.isfile(real):
        return
    with open(real, encoding="utf-8") as f:
        lines = f.read().split("\n")
    if lines and lines[-1] == "":
        lines = lines[:-1]
    coords = np.array([[float(np.asarray(v).ravel()[0]) for v in row] for row in np.asarray(contour.coordinates, dtype=object)], float)
    n_dim = coords.shape[1]
    if sem is None:
        names = [f"Variable {d + 1}" for d in range(n_dim)]
        units = ["arb. unit"] * n_dim
    else:
        names, units = sem["names"], sem["units"]
    header = ";".join(f"{names[d]} ({units[d]})" for d in range(n_dim))
    c.check("c20.save-header", lines[0] == header, "header line is not ';'.join('<name> (<unit>)')", got=lines[0][:120], want=header[:120])
    body = lines[1:]
    ok_n = len(body) == len(coords)
    c.check("c20.save-row-count", ok_n, "number of written rows differs from the number of contour points", got=len(body), want=int(len(coords)))
    if not ok_n:
        return
    try:
        parsed = np.array([[float(t) for t in ln.split(";")] for ln in body], float)
    except ValueError as e:
        c.check("c20.save-rows", False, "a written row is not ';'-separated numbers", message=str(e)[:100])
        return
    okv = parsed.shape == coords.shape and bool(np.all(np.abs(parsed - coords) <= 0.5e-6 + 1e-12 * np.abs(coords)))
    c.check("c20.save-rows", okv, "parsed rows are not the contour coordinates (in order) to 6 decimals", first_parsed=parsed[:2], first_coords=coords[:2])
    dec = all(len(t.split(".")[-1]) == 6 for ln in body[:50] for t in ln.split(";"))
    c.check("c20.save-format", dec, "values are not written with 6 decimals", example=body[0][:80] if body else None)


_DONE = [False]


def install():
    if _DONE[0]:
        return
    _DONE[0] = True
    import matplotlib

    matplotlib.use("Agg")
    import matplotlib.axes as maxes

    import virocon
    import virocon.contours as vc

    for k in ("plot", "scatter", "contour", "hist"):
        M.wrap(maxes.Axes, k, post=_rec(k), tag="c20")
    M.wrap(vc, "save_contour_coordinates", post=_post_save, tag="c20", is_method=False)
    virocon.save_contour_coordinates = vc.save_contour_coordinates


def gen_cases(tier, seed):
    rng = np.random.default_rng([seed, 20])
    cases = []
    classes = ["iform", "isorm", "hdc", "ds", "and", "or"]
    reps = 2 if tier == "quick" else 30
    for r in range(reps):
        for cl in classes:
            cases.append({"kind": "save", "cls": cl, "dim": 2, "sub": int(rng.integers(1 << 31))})
            for swap in (False, True):
                for dc in ("none", "true", "array"):
                    cases.append({"kind": "plot-contour", "cls": cl, "swap": swap, "dc": dc, "sample": bool(rng.integers(2)), "sub": int(rng.integers(1 << 31))})
        for cl in ("iform", "isorm", "hdc"):
            cases.append({"kind": "save", "cls": cl, "dim": 3, "sub": int(rng.integers(1 << 31))})
        for k in ("depfunc", "isodensity", "histograms", "quantiles"):
            for j_ in range(2):
                cases.append({"kind": k, "sub": int(rng.integers(1 << 31)), "cost": 3, "shared": j_ == 1})
    for k, n in enumerate([1, 2, 17, 1000, 10000, 3, 50, 400, 2500] if tier == "quick" else [1, 2, 3, 10, 100, 1000, 5000, 10000, 7] * 5):
        cases.append({"kind": "reader", "rows": n, "stamps": ["gaps", "repeated-stamps", "unsorted"][k % 3], "sub": int(rng.integers(1 << 31))})
    return cases


def _spec2(rng, dim=2):
    st = [None, 0] if dim == 2 else [None, 0, int(rng.integers(2))]
    return S.gen_spec(rng, structure=st, fams=["weibull", "lognormal", "expweib", "lnnf"], allow_hostile=False)


def _contour(cl, rng, dim=2):
    from virocon import AndContour, DirectSamplingContour, HighestDensityContour, IFORMContour, ISORMContour, OrContour

    spec = _spec2(rng, dim)
    model = S.build_virocon(spec)
    ref = S.RefModel(spec)
    alpha = float(10 ** rng.uniform(-3, -1))
    with M.quiet(), warnings.catch_warnings():
        warnings.simplefilter("ignore")
        if cl == "iform":
            return IFORMContour(model, alpha, n_points=int(rng.choice([12, 40]))), model, ref
        if cl == "isorm":
            return ISORMContour(model, alpha, n_points=int(rng.choice([12, 40]))), model, ref
        if cl == "hdc":
            lims = []
            for i in range(dim):
                lo, hi = ref.dim_range(i, eps=alpha * 1e-3)
                lims.append((0.0, float(hi)))
            n = 40 if dim == 2 else 18
            return HighestDensityContour(model, alpha, limits=lims, deltas=[(h - l) / n for l, h in lims]), model, ref
        smp = np.abs(ref.sample(3000, rng))
        if cl == "ds":
            return DirectSamplingContour(model, alpha, sample=smp, deg_step=10), model, ref
        if cl == "and":
            return AndContour(model, max(alpha, 5e-3), sample=smp, deg_step=10, allowed_error=0.1), model, ref
        return OrContour(model, max(alpha, 5e-3), sample=smp, deg_step=10, allowed_error=0.1), model, ref


def _contour_or_none(cl, rng, dim, ctx):
    for _ in range(4):
        try:
            return _contour(cl, rng, dim)
        except IndexError:
            # OR contour with every point beyond 1.1 x max / HDC grid too coarse: no contour to export (C04 / C02 scope)
            ctx.count("c20.no-contour-retry")
    ctx.inconcl("could not build a contour for this case")
    return None, None, None


def _flat(coords):
    return np.array([[float(np.asarray(v).ravel()[0]) for v in row] for row in np.asarray(coords, dtype=object)], float)


def run_case(case, ctx):
    rng = np.random.default_rng(case["sub"])
    ctx.cls("kind", case["kind"])
    ctx.sig = f"{case}"
    for k in REC:
        REC[k].clear()
    import matplotlib.pyplot as plt

    try:
        if case["kind"] == "save":
            _save(case, ctx, rng)
        elif case["kind"] == "plot-contour":
            _plot_contour(case, ctx, rng)
        elif case["kind"] == "reader":
            _reader(case, ctx, rng)
        else:
            _other_plots(case, ctx, rng)
    finally:
        plt.close("all")


def _save(case, ctx, rng):
    from virocon import save_contour_coordinates

    con, model, ref = _contour_or_none(case["cls"], rng, case["dim"], ctx)
    if con is None:
        return
    if isinstance(con.coordinates, list):
        ctx.count("c20.hdc-multi-region-skipped")
        return
    ctx.cls("class", case["cls"])
    tmp = tempfile.mkdtemp(prefix="vmon_c20_", dir=os.environ.get("VERIF_TMP", None))
    try:
        d = case["dim"]
        variants = [
            ("plain", os.path.join(tmp, "contour_a"), None),
            ("ext", os.path.join(tmp, "contour_b.csv"), {"names": [f"Näme {i}" for i in range(d)], "symbols": ["x"] * d, "units": ["m s$^{-1}$"] * d}),
            ("dotdir", os.path.join(tmp, "dir.v2", "contour_c"), {"names": ["Significant wave height", "Zero-up-crossing period", "Third"][:d], "symbols": ["H_s", "T_z", "V"][:d], "units": ["m", "s", "-"][:d]}),
            ("txt", os.path.join(tmp, "contour_d.txt"), None),
        ]
        os.makedirs(os.path.join(tmp, "dir.v2"), exist_ok=True)
        for name, path, sem in variants:
            if sem is None:
                save_contour_coordinates(con, path)
            else:
                save_contour_coordinates(con, path, sem)
        ctx.nontrivial = len(con.coordinates) >= 3
        ctx.sample = {"kind": "save", "class": case["cls"], "n_dim": d, "n_points": int(len(con.coordinates)), "paths": [v[1].replace(tmp, "<tmp>") for v in variants]}
    finally:
        shutil.rmtree(tmp, ignore_errors=True)


def _plot_contour(case, ctx, rng):
    from virocon import calculate_design_conditions, plot_2D_contour

    con, model, ref = _contour_or_none(case["cls"], rng, 2, ctx)
    if con is None:
        return
    if isinstance(con.coordinates, list):
        ctx.count("c20.hdc-multi-region-skipped")
        return
    ctx.cls("class", case["cls"])
    ctx.cls("design_conditions", case["dc"])
    coords = _flat(con.coordinates)
    swap = case["swap"]
    # (size as an input class: a sample of 1, 2 (= n_dim), 3 rows as well as a few hundred)
    sample = np.abs(ref.sample([200, 2, 1, 3, 200, 2][int(case["sub"]) % 6], rng)) if case["sample"] else None
    dc = None
    if case["dc"] == "true":
        dc = True
    elif case["dc"] == "array":
        xi = 1 if swap else 0
        lo, hi = coords[:, xi].min(), coords[:, xi].max()
        dc = np.c_[np.linspace(lo, hi, 5), np.linspace(1, 2, 5)]
    info = {"class": case["cls"], "swap_axis": swap, "design_conditions": case["dc"], "with_sample": case["sample"]}
    try:
        out = plot_2D_contour(con, sample=sample, design_conditions=dc, swap_axis=swap)
    except Exception as e:  # noqa: BLE001
        mech = None
        if isinstance(e, ValueError) and "truth value of an array" in str(e) and case["dc"] == "array":
            mech = "plot-contour-array-design-conditions-truth-value"
        elif case["cls"] == "or" and np.asarray(con.coordinates).dtype == object:
            mech = "or-contour-object-array-not-plottable"
        ctx.check("c20.plot-no-exception", False, f"plot_2D_contour raised {type(e).__name__}", mech, message=str(e)[:160], **info)
        return
    ax = out[0] if isinstance(out, tuple) else out
    ctx.nontrivial = len(coords) >= 3
    xi, yi = (1, 0) if swap else (0, 1)
    want = np.c_[np.r_[coords[:, xi], coords[0, xi]], np.r_[coords[:, yi], coords[0, yi]]]
    lines = [ln for ln in ax.get_lines()]
    got = None
    for ln in lines:
        xy = np.asarray(ln.get_xydata(), float)
        if xy.shape == want.shape:
            got = xy
    ok = got is not None and bool(np.all(got == want) or np.allclose(got, want, rtol=1e-14, atol=0))
    ctx.check("c20.plot-contour-line", ok, "the drawn line is not the closed polyline through the contour's points in order (axes exchanged iff swap_axis)", n_lines=len(lines), want_head=want[:2], got_head=None if got is None else got[:2], **info)
    colls = [np.asarray(c_.get_offsets(), float) for c_ in ax.collections]
    if sample is not None:
        ws = np.c_[sample[:, xi], sample[:, yi]]
        ctx.check("c20.plot-sample", any(o.shape == ws.shape and np.array_equal(o, ws) for o in colls), "the sample scatter is not the supplied sample", **info)
    if case["dc"] == "array":
        ctx.check("c20.plot-design-conditions", any(o.shape == dc.shape and np.array_equal(o, dc) for o in colls), "the design-condition scatter is not the supplied array", **info)
        ctx.count("c20.plot-returned-design-conditions" if (isinstance(out, tuple) and np.array_equal(np.asarray(out[1]), dc)) else "c20.plot-did-not-return-design-conditions(not-judged)")
    elif case["dc"] == "true":
        with M.quiet():
            try:
                wdc = np.asarray(calculate_design_conditions(con if case["cls"] != "or" else type("C", (), {"coordinates": coords})(), swap_axis=swap), float)
            except Exception:  # noqa: BLE001
                wdc = None
        if wdc is not None and len(wdc):
            ctx.check("c20.plot-design-conditions", any(o.shape == wdc.shape and np.allclose(o, wdc, rtol=1e-12, atol=0) for o in colls), "design_conditions=True: the scatter is not calculate_design_conditions(contour, swap_axis)", **info)
    ctx.sample = {"kind": "plot-contour", **info, "n_points": int(len(coords))}


def _fitted_model(rng, which=None, shared_refit=False):
    """A small fitted 2-D model (first fit of generated data) for the plots that need interval information."""
    from virocon import GlobalHierarchicalModel, WidthOfIntervalSlicer, DependenceFunction, WeibullDistribution, LogNormalDistribution

    def _power3(x, a, b, c):
        return a + b * x**c

    def _exp3(x, a, b, c):
        return a + b * np.exp(c * x)

    bounds = [(0, None), (0, None), (None, None)]
    spec = S.spec_seastate()
    data = np.abs(S.RefModel(spec).sample(4000, rng))
    dd = [
        {"distribution": WeibullDistribution(), "intervals": WidthOfIntervalSlicer(width=float(rng.choice([0.5, 1.0])), min_n_points=40)},
        {"distribution": LogNormalDistribution(), "conditional_on": 0, "parameters": {"mu": DependenceFunction(_power3, bounds, latex="$a + b * x^c$"), "sigma": DependenceFunction(_exp3, bounds)}},
    ]
    model = GlobalHierarchicalModel(dd)
    with M.quiet(), warnings.catch_warnings():
        warnings.simplefilter("ignore")
        model.fit(data)
        if shared_refit:
            # "same structure, several sites": a second model built from the SAME description list (the dependence-function
            # objects are shared) is fitted to other data afterwards; the first model's plot still shows its own estimates
            other = GlobalHierarchicalModel(dd)
            other.fit(data[:2500] * np.array([1.3, 1.1]))
    return model, data


def _other_plots(case, ctx, rng):
    import virocon

    kind = case["kind"]
    model, data = _fitted_model(rng, shared_refit=(kind == "depfunc" and bool(case.get("shared"))))
    if kind == "depfunc":
        ctx.cls("dependence-functions", "shared-with-a-model-fitted-later" if case.get("shared") else "own")
    for k in REC:
        REC[k].clear()
    ctx.nontrivial = True
    if kind == "depfunc":
        axes = virocon.plot_dependence_functions(model)
        dist = model.distributions[1]
        cv = np.asarray(dist.conditioning_values, float)
        xs = np.linspace(0, max(cv))
        for ax, (pname, dep) in zip(axes, dist.conditional_parameters.items()):
            want = np.c_[xs, np.asarray(dep(xs), float)]
            lines = [np.asarray(l.get_xydata(), float) for l in ax.get_lines()]
            ctx.check("c20.depfunc-line", any(l.shape == want.shape and np.allclose(l, want, rtol=1e-14, atol=0) for l in lines), "plot_dependence_functions does not draw dep_func(x) over [0, max conditioning value]", parameter=pname)
            est = np.c_[cv, [p[pname] for p in dist.parameters_per_interval]]
            offs = [np.asarray(c_.get_offsets(), float) for c_ in ax.collections]
            ctx.check("c20.depfunc-estimates", any(o.shape == est.shape and np.allclose(o, est, rtol=1e-14, atol=0) for o in offs), "plot_dependence_functions does not scatter the per-interval estimates at the conditioning values", parameter=pname)
        ctx.sample = {"kind": kind, "n_intervals": int(len(cv))}
    elif kind == "isodensity":
        swap = bool(rng.integers(2))
        limits = None if rng.random() < 0.5 else [(0.1, 12.0), (1.0, 16.0)]
        levels = None if rng.random() < 0.5 else [1e-4, 1e-3, 1e-2]
        ng = int(rng.choice([20, 50]))
        smp = data[:300]
        virocon.plot_2D_isodensity(model, smp, swap_axis=swap, limits=limits, levels=levels, n_grid_steps=ng)
        ok = False
        detail = {}
        if REC["contour"]:
            _, args, kw = REC["contour"][-1]
            X, Y, Z = [np.asarray(a, float) for a in args[:3]]
            # X, Y as handed over: (X, Y) hold (first, second) model variable unless swapped
            g0, g1 = (Y, X) if swap else (X, Y)
            with M.quiet():
                want = np.asarray(model.pdf(np.c_[g0.ravel(), g1.ravel()]), float).reshape(Z.shape)
            ok = bool(np.allclose(Z, want, rtol=1e-12, atol=0))
            detail = {"Z_shape": list(Z.shape), "max_rel": float(np.max(np.abs(Z - want) / np.maximum(np.abs(want), 1e-300)))}
            if limits is not None:
                okl = abs(g0.min() - limits[0][0]) < 1e-12 and abs(g0.max() - limits[0][1]) < 1e-12 and abs(g1.min() - limits[1][0]) < 1e-12 and abs(g1.max() - limits[1][1]) < 1e-12
                ctx.check("c20.isodensity-limits", okl, "plot_2D_isodensity does not evaluate the density on the requested limits", swap_axis=swap)
            if levels is not None:
                ctx.check("c20.isodensity-levels", list(kw.get("levels", [])) == levels, "plot_2D_isodensity does not draw the requested levels", got=list(kw.get("levels", [])))
        ctx.check("c20.isodensity-Z", ok, "plot_2D_isodensity does not hand model.pdf on the plotted grid to matplotlib (axes exchanged iff swap_axis)", swap_axis=swap, **detail)
        offs = [np.asarray(c_[1][0], float) for c_ in REC["scatter"]]
        xi, yi = (1, 0) if swap else (0, 1)
        ctx.check("c20.isodensity-sample", bool(REC["scatter"]) and np.array_equal(np.asarray(REC["scatter"][0][1][0], float), smp[:, xi]) and np.array_equal(np.asarray(REC["scatter"][0][1][1], float), smp[:, yi]), "plot_2D_isodensity does not scatter the supplied sample", swap_axis=swap)
        ctx.sample = {"kind": kind, "swap_axis": swap, "limits": limits, "levels": levels, "n_grid_steps": ng}
    elif kind == "histograms":
        figs, axes_list = virocon.plot_histograms_of_interval_distributions(model, data)
        # unconditional dimension
        ax0 = axes_list[0]
        xs = np.linspace(np.min(data[:, 0]), np.max(data[:, 0]))
        want = np.c_[xs, np.asarray(model.distributions[0].pdf(xs), float)]
        lines = [np.asarray(l.get_xydata(), float) for l in ax0.get_lines()]
        ctx.check("c20.hist-pdf-line", any(l.shape == want.shape and np.allclose(l, want, rtol=1e-14, atol=0) for l in lines), "histogram plot: the curve of the unconditional variable is not its fitted pdf")
        dist = model.distributions[1]
        okall = True
        for i, ax in enumerate(np.ravel(axes_list[1])[: len(dist.distributions_per_interval)]):
            dat = np.asarray(dist.data_intervals[i], float)
            xs = np.linspace(np.min(dat), np.max(dat))
            want = np.c_[xs, np.asarray(dist.distributions_per_interval[i].pdf(xs), float)]
            lines = [np.asarray(l.get_xydata(), float) for l in ax.get_lines()]
            okall = okall and any(l.shape == want.shape and np.allclose(l, want, rtol=1e-14, atol=0) for l in lines)
        ctx.check("c20.hist-interval-pdf-lines", okall, "histogram plot: an interval's curve is not the pdf of the distribution fitted to that interval")
        hd = [np.sort(np.asarray(h[1][0], float)) for h in REC["hist"]]
        wantd = [np.sort(data[:, 0])] + [np.sort(np.asarray(d_, float)) for d_ in dist.data_intervals]
        ctx.check("c20.hist-data", len(hd) == len(wantd) and all(a.shape == b.shape and np.array_equal(a, b) for a, b in zip(hd, wantd)), "histogram plot: the histogrammed data are not the sample / the per-interval data", n_hist=len(hd), n_want=len(wantd))
        ctx.sample = {"kind": kind, "n_intervals": len(dist.distributions_per_interval)}
    else:
        smp = data[:400]
        axes = virocon.plot_marginal_quantiles(model, smp)
        ax = axes[0]
        xy = np.asarray(ax.get_lines()[0].get_xydata(), float)
        n = len(smp)
        ctx.check("c20.qq-ordered-values", xy.shape[0] == n and np.array_equal(xy[:, 1], np.sort(smp[:, 0])), "QQ plot: ordered values are not the sorted sample")
        # theoretical quantiles of the unconditional first variable: its icdf at scipy's plotting positions
        import scipy.stats as sts

        q = sts.mstats.plotting_positions(smp[:, 0], 0.3175, 0.365) if False else None
        osm = sts.probplot(smp[:, 0], dist=sts.norm, fit=False)[0]
        pos = sts.norm.cdf(osm)
        want = np.asarray(model.distributions[0].icdf(pos), float)
        ctx.check("c20.qq-theoretical", np.allclose(xy[:, 0], want, rtol=1e-9, atol=0), "QQ plot: theoretical quantiles are not the marginal icdf at the plotting positions", max_rel=float(np.max(np.abs(xy[:, 0] - want) / np.abs(want))))
        ctx.sample = {"kind": kind, "n": n}


def _reader(case, ctx, rng):
    from virocon import read_ec_benchmark_dataset
    import pandas as pd

    n = case["rows"]
    tmp = tempfile.mkdtemp(prefix="vmon_c20r_")
    try:
        t0 = pd.Timestamp("1996-01-01 00:00") + pd.Timedelta(hours=int(rng.integers(0, 5000)))
        hours = np.cumsum(rng.integers(1, 4, n))
        # time stamps are data too: gaps (default), stamps that repeat (two observations in one hour), rows out of order
        pattern = case.get("stamps", "gaps")
        if pattern == "repeated-stamps" and n >= 2:
            hours = np.cumsum(rng.integers(0, 3, n))
            hours[1] = hours[0]
        elif pattern == "unsorted" and n >= 2:
            hours = rng.permutation(hours)
        ctx.cls("time-stamps", pattern)
        times = [t0 + pd.Timedelta(hours=int(h)) for h in hours]
        a = np.round(rng.weibull(1.5, n) * 3, 2)
        b = np.round(rng.lognormal(1.8, 0.3, n), 2)
        cols = [["time (YYYY-MM-DD-HH)", "significant wave height (m)", "zero-up-crossing period (s)"], ["time (YYYY-MM-DD-HH)", "wind speed (m/s)", "significant wave height (m)"]][int(rng.integers(2))]
        path = os.path.join(tmp, "ec_synth.txt")
        with open(path, "w") as f:
            f.write("; ".join(cols) + "\n")
            for t, u, v in zip(times, a, b):
                f.write(f"{t.strftime('%Y-%m-%d-%H')}; {u:.2f}; {v:.2f}\n")
        df = read_ec_benchmark_dataset(path)
        ctx.nontrivial = n >= 3
        ok = df.shape == (n, 2) and np.array_equal(df.values[:, 0], a) and np.array_equal(df.values[:, 1], b)
        ctx.check("c20.reader-rows", ok, "read_ec_benchmark_dataset does not return every data row in order", shape=list(df.shape), rows=n)
        ctx.check("c20.reader-columns", list(df.columns) == cols[1:], "read_ec_benchmark_dataset column names", got=list(df.columns), want=cols[1:])
        ctx.check("c20.reader-index", len(df.index) == n and all(pd.Timestamp(x) == y for x, y in zip(df.index[:50], times[:50])) and pd.Timestamp(df.index[-1]) == times[-1], "read_ec_benchmark_dataset index is not the time stamp of each row", first=str(df.index[0]) if n else None)
        ctx.sample = {"kind": "reader", "rows": n, "columns": cols}
        # history: the caller edits the returned frame in place, the file is rewritten at the SAME path, and it is read again
        if n >= 2:
            df.iloc[:, 0] *= 2.0
            again = read_ec_benchmark_dataset(path)
            ctx.check("c20.reader-rows", again.shape == (n, 2) and np.array_equal(again.values[:, 0], a), "read_ec_benchmark_dataset: a second read returns the frame the caller edited, not the file's rows", rows=n)
            m = max(1, n // 3)
            a2 = np.round(rng.weibull(1.5, m) * 5 + 1, 2)
            with open(path, "w") as f:
                f.write("; ".join(cols) + "\n")
                for t, u in zip(times[:m], a2):
                    f.write(f"{t.strftime('%Y-%m-%d-%H')}; {u:.2f}; {u + 1:.2f}\n")
            third = read_ec_benchmark_dataset(path)
            ctx.check("c20.reader-rows", third.shape == (m, 2) and np.array_equal(third.values[:, 0], a2), "read_ec_benchmark_dataset: after the file was rewritten at the same path the old rows are returned", rows_now=m, rows_returned=int(third.shape[0]))
    finally:
        shutil.rmtree(tmp, ignore_errors=True)
