"""C10 - interval slicing partitions the data: each observation in exactly one interval."""
import itertools

import numpy as np

from .. import slicemon

ID = "C10"
LEVEL = "exploration"
RULE = (
    "lattice cases: for each width w in {1, 0.5, 0.1, 0.3, 0.7} ALL data vectors of length 1..L (L=4 quick, 5 thorough) "
    "over the decimal lattice {k*w/2 : k=0..6} (multiples and half-multiples of the width, every order, ties included) are "
    "sliced by every listed configuration of the three slicers; random cases: long vectors (50..5000) rounded to 0.1/0.01 with "
    "ties, shuffled/sorted/reversed, value_range settings. Every slice_ call is observed by the slice_ monitor, which re-runs the "
    "same configuration with min_n_points=min_n_intervals=0 to see the state before dropping. evaluations = monitored slice_ calls; "
    "non-trivial = the vector has an observation within 4 ulp of a reported interval edge or is not sorted; all (configuration, vector) "
    "pairs are distinct by construction and counted."
    ' Also: value ranges (w,1.5w), (0.5w,2w); translation invariance of the interval count; documented defaults judged for options that are not passed (partial chunks of 50..n_points-1 points).'
)
ASSUMPTIONS = [
    "the covered value range is the span of the boundaries reported before dropping, with the configured open/closed ends",
    "PointsPerIntervalSlicer is driven with len(data) >= n_points (fewer points than one chunk is an ill-formed request, C18)",
    "numpy comparison semantics",
]
REQUIRED = ["slice.exactly-one", "slice.dropped-set", "slice.too-few-raises", "slice.references", "slice.members-in-bounds"]
EXHAUSTIVE = {"quick": False, "thorough": False}
CASE_TIMEOUT_S = 900
WIDTHS = [1.0, 0.5, 0.1, 0.3, 0.7]


def _woi_cfgs(w, full):
    refs = ["center", "left", "right", "median"]
    out = []
    k = 0
    for ro in (True, False):
        for vr in (None, (w, 3 * w), (None, 2.5 * w), (0.5 * w, None), (w, 1.5 * w)):
            for mnp in (0, 1, 2):
                mni_opts = (0, 2) if full else ((0, 2)[k % 2],)
                ref_opts = refs if full else (refs[k % 4],)
                for mni in mni_opts:
                    for ref in ref_opts:
                        out.append({"slicer": "woi", "width": w, "right_open": ro, "value_range": vr, "min_n_points": mnp, "min_n_intervals": mni, "reference": ref})
                k += 1
    return out


def _noi_cfgs(w, full):
    refs = ["center", "left", "right", "median"]
    out = []
    k = 0
    for ni in (1, 2, 3, 5):
        for im in (True, False):
            for vr in (None, (0.0, 3 * w), (0.5 * w, 2 * w)):
                mnp_opts = (0, 1, 2) if full else ((0, 1, 2)[k % 3],)
                for mnp in mnp_opts:
                    out.append({"slicer": "noi", "n_intervals": ni, "include_max": im, "value_range": vr, "min_n_points": mnp, "min_n_intervals": (0, 2, 3)[k % 3], "reference": refs[k % 4]})
                k += 1
    return out


def _ppi_cfgs(full):
    out = []
    k = 0
    for npnt in (1, 2, 3):
        for lf in (True, False):
            for mnp in (None, 0, 2):
                out.append({"slicer": "ppi", "n_points": npnt, "last_full": lf, "min_n_points": mnp, "min_n_intervals": (0, 1, 2)[k % 3], "reference": ("median", "mean")[k % 2]})
                k += 1
    return out


def gen_cases(tier, seed):
    full = tier == "thorough"
    L = 5 if full else 4
    cases = []
    for w in WIDTHS:
        for cfg in _woi_cfgs(w, full) + _noi_cfgs(w, full) + _ppi_cfgs(full):
            cases.append({"kind": "lattice", "w": w, "L": L, "cfg": cfg, "cost": 7.0**L / 2000})
    rng = np.random.default_rng([seed, 10])
    n_rand = 160 if not full else 2400
    for i in range(n_rand):
        cases.append({"kind": "random", "sub": int(rng.integers(1 << 31)), "cost": 0.2})
    # documented defaults (options NOT passed) meet sizes at their thresholds: a partial chunk of 50..n_points-1 points
    for npnt, n in ((100, 1070), (130, 710), (333, 1050), (51, 152), (100, 1049), (100, 1050)):
        for lf in (True, False):
            cases.append({"kind": "ppi-default", "n_points": npnt, "n": n, "last_full": lf, "sub": int(rng.integers(1 << 31)), "cost": 0.1})
    cases.append({"kind": "repo-tests", "files": ["tests/test_intervals.py"], "cost": 10})
    return cases


def install():
    slicemon.install()


def _ref(name):
    return {"median": np.median, "mean": np.mean}.get(name, name)


def make_slicer(cfg):
    from virocon import NumberOfIntervalsSlicer, PointsPerIntervalSlicer, WidthOfIntervalSlicer

    kw = {}
    if cfg.get("min_n_points") is not None:
        kw["min_n_points"] = cfg["min_n_points"]
    if cfg.get("min_n_intervals") is not None:
        kw["min_n_intervals"] = cfg["min_n_intervals"]
    vr = cfg.get("value_range")
    vr = tuple(vr) if vr is not None else None
    if cfg["slicer"] == "woi":
        return slicemon.remember_configuration(WidthOfIntervalSlicer(cfg["width"], reference=_ref(cfg["reference"]), right_open=cfg["right_open"], value_range=vr, **kw), _explicit=kw)
    if cfg["slicer"] == "noi":
        return slicemon.remember_configuration(NumberOfIntervalsSlicer(cfg["n_intervals"], reference=_ref(cfg["reference"]), include_max=cfg["include_max"], value_range=vr, **kw), _explicit=kw)
    return slicemon.remember_configuration(PointsPerIntervalSlicer(cfg["n_points"], reference=_ref(cfg["reference"]), last_full=cfg["last_full"], **kw), _explicit=kw)


def _drive(slicer, data):
    try:
        slicer.slice_(data)
    except RuntimeError:
        pass  # judged by the monitor (too-few rule)


def _nontrivial(data, w):
    d = np.asarray(data)
    if d.size > 1 and np.any(np.diff(d) < 0):
        return True
    r = d / (w / 2)
    return bool(np.any(np.abs(r - np.round(r)) < 1e-9))


def run_case(case, ctx):
    n_eval = n_nontriv = 0
    if case["kind"] == "repo-tests":
        from .. import repotests

        ctx.cls("slicer", "repository-tests")
        repotests.run(ctx, case["files"])
        ctx.notes["n_eval"] = sum(v for k, v in ctx.counts.items() if k.startswith("slice.calls["))
        ctx.notes["n_nontrivial"] = 0
        return
    if case["kind"] == "ppi-default":
        from virocon import PointsPerIntervalSlicer

        rng = np.random.default_rng(case["sub"])
        data = np.round(rng.weibull(1.5, case["n"]) * 3, 2)
        slicer = slicemon.remember_configuration(PointsPerIntervalSlicer(case["n_points"], last_full=case["last_full"]), _explicit={})
        ctx.cls("slicer", "ppi-documented-defaults")
        ctx.sample = {"kind": "ppi-default", "n_points": case["n_points"], "n": case["n"], "last_full": case["last_full"]}
        _drive(slicer, data)
        ctx.nontrivial = True
        ctx.sig = f"ppi-default:{case['n_points']}:{case['n']}:{case['last_full']}"
        ctx.notes["n_eval"] = 1
        ctx.notes["n_nontrivial"] = 1
        return
    if case["kind"] == "lattice":
        w, L, cfg = case["w"], case["L"], case["cfg"]
        ctx.cls("slicer", cfg["slicer"])
        ctx.cls("width", w)
        lattice = [round(k * w / 2, 6) for k in range(7)]
        slicer = make_slicer(cfg)
        ctx.sample = {"kind": "lattice", "cfg": cfg, "lattice": lattice, "lengths": [1, L]}
        for n in range(1, L + 1):
            if cfg["slicer"] == "ppi" and n < cfg["n_points"]:
                continue
            for tup in itertools.product(lattice, repeat=n):
                data = np.array(tup, dtype=float)
                _drive(slicer, data)
                n_eval += 1
                n_nontriv += 1  # every lattice value is a multiple/half-multiple of the width: sits on edges by construction
                if n <= 3 and w in (0.1, 0.7, 0.3):
                    # the same observations stored in single precision (edges that are not exact in that dtype)
                    _drive(slicer, data.astype(np.float32))
                    n_eval += 1
                    n_nontriv += 1
        ctx.nontrivial = True
        ctx.sig = f"lattice:{cfg}"
    else:
        rng = np.random.default_rng(case["sub"])
        n = int(rng.choice([50, 200, 1000, 5000]))
        scale = float(rng.choice([2.0, 5.0, 12.0]))
        raw = rng.weibull(1.5, n) * scale
        dec = int(rng.choice([1, 2, 1]))
        data = np.round(raw, dec)
        order = str(rng.choice(["shuffled", "sorted", "reversed", "blocks"]))
        if order == "sorted":
            data = np.sort(data)
        elif order == "reversed":
            data = np.sort(data)[::-1].copy()
        elif order == "blocks":
            data = np.concatenate([np.sort(data[: n // 2]), data[n // 2 :]])
        w = float(rng.choice([0.1, 0.2, 0.3, 0.5, 0.7, 1.0, 2.0]))
        which = str(rng.choice(["woi", "noi", "ppi"]))
        mnp = int(rng.choice([0, 1, 5, 20, 50]))
        mni = int(rng.choice([0, 1, 3, 10]))
        if which == "woi":
            vr = [None, (0.0, float(np.max(data))), (1.0, None), (None, scale), (0.5, 2 * scale)][int(rng.integers(5))]
            cfg = {"slicer": "woi", "width": w, "right_open": bool(rng.integers(2)), "value_range": vr, "min_n_points": mnp, "min_n_intervals": mni, "reference": str(rng.choice(["center", "left", "right", "median"]))}
        elif which == "noi":
            vr = [None, (0.0, float(np.max(data))), (0.0, scale), (1.0, 3 * scale)][int(rng.integers(4))]
            cfg = {"slicer": "noi", "n_intervals": int(rng.choice([1, 3, 7, 10, 25])), "include_max": bool(rng.integers(2)), "value_range": vr, "min_n_points": mnp, "min_n_intervals": mni, "reference": str(rng.choice(["center", "left", "right", "median"]))}
        else:
            cfg = {"slicer": "ppi", "n_points": int(rng.choice([7, 25, 50, 130, 100, 333])), "last_full": bool(rng.integers(2)), "min_n_points": [None, 0, 10, None][int(rng.integers(4))], "min_n_intervals": [mni, None][int(rng.integers(2))], "reference": str(rng.choice(["median", "mean"]))}
            if cfg["n_points"] > n:
                cfg["n_points"] = n
            if cfg["n_points"] > 60 and rng.random() < 0.5:
                # a last / first chunk of 50 .. n_points-1 observations (kept under the documented default min_n_points = 50)
                keep = (n // cfg["n_points"]) * cfg["n_points"] + int(rng.integers(50, cfg["n_points"]))
                data = data[: min(keep, n)] if keep <= n else data
        if int(case["sub"]) % 4 == 1:
            data = data.astype(np.float32)
            ctx.cls("dtype", "float32")
        ctx.cls("slicer", cfg["slicer"])
        ctx.cls("order", order)
        ctx.sample = {"kind": "random", "cfg": cfg, "n": n, "order": order, "decimals": dec, "head": data[:6].tolist()}
        _drive(make_slicer(cfg), data)
        n_eval = 1
        ctx.nontrivial = True
        n_nontriv = 1
        ctx.sig = f"random:{case['sub']}"
    ctx.notes["n_eval"] = n_eval
    ctx.notes["n_nontrivial"] = n_nontriv


def coverage_extra(results, tier):
    ne = sum(r.get("notes", {}).get("n_eval", 0) for r in results)
    nn = sum(r.get("notes", {}).get("n_nontrivial", 0) for r in results)
    lat = sum(1 for r in results if (r.get("sig") or "").startswith("lattice"))
    return {
        "evaluations": int(ne),
        "distinct_nontrivial": int(nn),
        "cases": len(results),
        "lattice_configurations_driven_exhaustively": lat,
        "explanation_exhaustive": "within each lattice case every vector of the stated lattice up to the stated length was driven (exhaustive sub-space); the configuration lists themselves are a chosen sample (full product in thorough)",
    }
