"""C06 - the joint density factorises hierarchically; cdf and marginals are its integrals."""
import math
import warnings

import numpy as np
from scipy import integrate

from .. import condmon
from .. import monitors as M
from .. import refmodel as R
from .. import specs as S
from .. import stats

ID = "C06"
LEVEL = "exploration"
RULE = (
    "case = (2-D or 3-D model spec over non-negative families with every conditional_on structure, operation, evaluation points from the bulk and the tails). "
    "Operations: pdf at (n, n_dim) float arrays, lists, tuples, a single row vector and integer-valued int arrays (monitor: product of REFERENCE conditional densities "
    "at the declared conditioning column; all input forms must agree); cdf (2-D in quick, 3-D in thorough) against nested 1-D quadrature of reference cdfs; "
    "marginal_pdf / marginal_cdf of conditional variables (2-D and 3-D incl. chains) against reference quadrature over the ancestors only; marginal_icdf: exact for "
    "unconditional variables, for conditional ones the reference marginal cdf at the returned quantile must lie within the DKW band of the documented sample size; "
    "marginal_cdf(marginal_icdf(p)) = p; total mass (thorough: nquad of the real pdf). Non-trivial = a conditional variable is involved and the density at the point "
    "is > 0; distinct = (spec signature, operation, point)."
    ' Also: every second case of each operation in other units (1e-3..1e3 per variable); marginal_* skipped (counted) where a dependence function is not finite on (0, inf).'
)
ASSUMPTIONS = [
    "non-negative families only: the code integrates from 0 (stated in the quantifier)",
    "reference integrals by scipy.integrate.quad over reference densities / cdfs (another route than virocon's nquad of the joint pdf); tolerance 1e-6 abs + both error estimates",
    "DKW at 1e-12 for Monte-Carlo quantiles with n = max(int(100*precision_factor/min(p,1-p)), 1e5) as documented",
]
REQUIRED = ["c06.pdf-factorises", "c06.pdf-forms", "c06.cdf", "c06.marginal-pdf", "c06.marginal-cdf", "c06.marginal-icdf"]
CASE_TIMEOUT_S = 1500
WATCHDOG_S = {"quick": 1500, "thorough": 7200}
SHARDS_PER_WORKER = 6
FAMS = ["weibull", "lognormal", "lnnf", "expweib", "gengamma"]


# ----------------------------------------------------------------------
# reference integrals
# ----------------------------------------------------------------------
def _quad(f, a, b, pts=None):
    with warnings.catch_warnings():
        warnings.simplefilter("ignore")
        v, e = integrate.quad(f, a, b, epsabs=1e-11, epsrel=1e-10, limit=200, points=pts)
    return v, e


def _ancestors(ref, j):
    out = []
    c = ref.cond[j]
    while c is not None:
        out.append(c)
        c = ref.cond[c]
    return out[::-1]  # root first


def _range(ref, i):
    lo, hi = ref.dim_range(i, eps=1e-13)
    return max(0.0, lo), hi


def _icdf_at(ref, a, u, vals):
    """Quantile of variable a at probability u given the values of its conditioner (tail-aware)."""
    c = ref.cond[a]
    p = ref.params_at(a, None if c is None else vals[c])
    fam = ref.dims[a]["fam"]
    return float(R.icdf(fam, u, **p)) if u < 0.5 else float(R.isf(fam, 1.0 - u, **p))


def _cdf_at(ref, a, t, vals):
    c = ref.cond[a]
    p = ref.params_at(a, None if c is None else vals[c])
    return float(R.cdf(ref.dims[a]["fam"], t, **p))


def ref_marginal(ref, j, x, what="pdf"):
    """Marginal pdf / cdf of variable j at x by nested quadrature over its ancestors only.
    Each ancestor is integrated in its own probability scale, int f_a(t) h(t) dt = int_0^1 h(F_a^-1(u)) du,
    which stays well-conditioned for heavy-tailed conditioners (a plain quad over [0, q(1-1e-13)] of a log-normal with
    sigma 2.2 was 5 % off - a false alarm of the first version of this oracle)."""
    anc = _ancestors(ref, j)
    err = [0.0]

    def leaf(vals):
        X = np.zeros((1, ref.n_dim))
        for k, v in vals.items():
            X[0, k] = v
        X[0, j] = x
        return float(ref.cond_pdf(j, X)[0] if what == "pdf" else ref.cond_cdf(j, X)[0])

    def rec(k, vals):
        if k == len(anc):
            return leaf(vals)
        a = anc[k]

        def integrand(u):
            v2 = dict(vals)
            v2[a] = _icdf_at(ref, a, u, vals)
            return rec(k + 1, v2)

        v, e = _quad(integrand, 0.0, 1.0, [0.01, 0.5, 0.99])
        err[0] += abs(e)
        return v

    return rec(0, {}), err[0]


def ref_joint_cdf(ref, x):
    """F(x) by integrating over the conditioning (internal) variables only (each in its probability scale, up to
    F_a(x_a)); leaves enter through their conditional cdfs."""
    d = ref.n_dim
    internal = sorted({c for c in ref.cond if c is not None})
    leaves = [i for i in range(d) if i not in internal]
    err = [0.0]

    def rec(k, vals):
        if k == len(internal):
            X = np.zeros((1, d))
            for kk, vv in vals.items():
                X[0, kk] = vv
            out = 1.0
            for l in leaves:
                X[0, l] = x[l]
                out *= float(ref.cond_cdf(l, X)[0])
            return out
        a = internal[k]
        top = _cdf_at(ref, a, float(x[a]), vals)
        if top <= 0:
            return 0.0

        def integrand(u):
            v2 = dict(vals)
            v2[a] = _icdf_at(ref, a, u, vals)
            return rec(k + 1, v2)

        v, e = _quad(integrand, 0.0, top, [q for q in (0.01, 0.5, 0.99) if q < top] or None)
        err[0] += abs(e)
        return v

    return rec(0, {}), err[0]


# ----------------------------------------------------------------------
# monitor on the real pdf: product of the reference conditional densities
# ----------------------------------------------------------------------
def _post_pdf(call):
    c = M.current()
    if c is None or call.exc is not None:
        return
    spec = c.case.get("spec")
    if spec is None or type(call.self).__name__ != "GlobalHierarchicalModel" or getattr(call.self, "_vmon_dimspecs_unknown", False):
        return
    if c.counts["c06.pdf-factorises"] >= 3000:
        c.count("c06.pdf-calls-beyond-budget")  # inner evaluations of a quadrature: the first 3000 per case are compared
        return
    x = call.args[0] if call.args else call.kwargs.get("x")
    try:
        X = np.asarray(x, float)
    except (TypeError, ValueError):
        return
    if X.ndim == 1:
        X = X.reshape(1, -1)
    if X.ndim != 2 or X.shape[1] != len(spec["dims"]) or not np.all(np.isfinite(X)):
        return
    ref = S.RefModel(spec)
    with np.errstate(all="ignore"):
        want = ref.pdf(X)
    got = np.asarray(call.result, float)
    ok = got.shape == want.shape
    mech = None
    if ok:
        err = np.abs(got - want)
        tol = 1e-9 * np.abs(want) + 1e-200
        bad = ~((err <= tol) | (np.isnan(want)))
        ok = not bool(np.any(bad))
        if not ok and np.asarray(x).dtype.kind in "iu" and np.all(got == np.trunc(got)):
            mech = "joint-pdf-integer-input-truncated"
    c.count("c06.pdf-points", int(X.shape[0]))
    neg = bool(np.any(got < 0)) if got.size else False
    c.check("c06.pdf-nonnegative", not neg, "joint pdf is negative")
    j = int(np.argmax(np.abs(got - want) / np.maximum(np.abs(want), 1e-300))) if (not ok and got.shape == want.shape) else 0
    c.check(
        "c06.pdf-factorises",
        ok,
        "joint pdf is not the product of the marginal / conditional densities at the declared conditioning values",
        mech,
        point=X[j].tolist() if X.size else None,
        got=float(got.ravel()[j]) if got.size and got.shape == want.shape else list(got.shape),
        want=float(want[j]) if want.size else None,
        structure=[d.get("cond") for d in spec["dims"]],
        input_dtype=str(np.asarray(x).dtype),
    )


_DONE = [False]


def install():
    condmon.install()
    from .. import distmon

    distmon.BUDGET[0] = 4000
    if _DONE[0]:
        return
    _DONE[0] = True
    from virocon import GlobalHierarchicalModel

    M.wrap(GlobalHierarchicalModel, "pdf", post=_post_pdf, tag="c06", outermost_only=True)


# ----------------------------------------------------------------------
def gen_cases(tier, seed):
    rng = np.random.default_rng([seed, 6])
    cases = []
    s2, s3 = S.all_structures(2), S.all_structures(3)
    reps = 3 if tier == "quick" else 40

    def spec_for(st):
        sub = np.random.default_rng(int(rng.integers(1 << 62)))
        return S.gen_spec(sub, structure=st, fams=FAMS, allow_hostile=bool(sub.integers(2)))

    for r in range(reps):
        for st in s2 + s3:
            cases.append({"op": "pdf", "spec": spec_for(st), "sub": int(rng.integers(1 << 31)), "cost": 0.2})
    for r in range(reps):
        for st in s2:
            cases.append({"op": "cdf", "spec": spec_for(st), "sub": int(rng.integers(1 << 31)), "q": [float(rng.uniform(0.2, 0.95)) for _ in range(2)], "cost": 6})
        cases.append({"op": "marginal", "spec": spec_for([None, 0]), "dim": 1, "sub": int(rng.integers(1 << 31)), "q": float(rng.uniform(0.1, 0.9)), "cost": 8})
        cases.append({"op": "marginal-icdf", "spec": spec_for([None, 0]), "dim": 1, "sub": int(rng.integers(1 << 31)), "cost": 2})
        cases.append({"op": "marginal-icdf", "spec": spec_for([None, 0, 1]), "dim": 2, "sub": int(rng.integers(1 << 31)), "cost": 2})
        cases.append({"op": "marginal-icdf-history", "spec": spec_for([None, 0]), "spec2": spec_for([None, 0]), "dim": 1, "sub": int(rng.integers(1 << 31)), "cost": 3})
    # 3-D marginals: every structure in which the variable is conditional (dims 1 and 2), one point each
    n3 = 1 if tier == "quick" else 6
    for r in range(n3):
        for st in s3:
            for dim in (1, 2):
                if st[dim] is not None:
                    cases.append({"op": "marginal-pdf-3d", "spec": spec_for(st), "dim": dim, "sub": int(rng.integers(1 << 31)), "q": float(rng.uniform(0.2, 0.8)), "cost": 25})
    if tier == "thorough":
        for st in s3:
            cases.append({"op": "marginal-cdf-3d", "spec": spec_for(st), "dim": 2 if st[2] is not None else 1, "sub": int(rng.integers(1 << 31)), "q": float(rng.uniform(0.3, 0.7)), "cost": 150})
            cases.append({"op": "cdf", "spec": spec_for(st), "sub": int(rng.integers(1 << 31)), "q": [float(rng.uniform(0.3, 0.9)) for _ in range(3)], "cost": 200})
        for st in s2:
            cases.append({"op": "total-mass", "spec": spec_for(st), "sub": int(rng.integers(1 << 31)), "cost": 30})
    # FITTED models (state left by fit()), evaluated inside and far outside the fitted range of the conditioning variable
    frng = np.random.default_rng([seed, 6, 11])
    for k in range(3 if tier == "quick" else 40):
        cases.append({"op": "fitted-factorisation", "spec": spec_for([None, 0]), "sub": int(frng.integers(1 << 31)), "n": int(frng.choice([2000, 6000])), "cost": 3})
    # units as an input class: the same law with variables measured in other units (centimetres, kilometres per hour,
    # millimetres): values above 100 and below 1e-2 - an absolute constant in the code shows up here
    urng = np.random.default_rng([seed, 6, 77])
    cyc = [[1e2, 1.0, 1e3], [1.0, 1e3, 1e-2], [1e3, 1e2, 1.0], [1e-3, 1.0, 1e-2], [1e-2, 1e-3, 1e2]]
    seen = {}
    for cse in cases:
        op = cse["op"]
        if op not in ("pdf", "cdf", "marginal", "marginal-icdf", "total-mass", "marginal-pdf-3d"):
            continue
        k = seen.get(op, 0)
        seen[op] = k + 1
        if k % 2 == 1:  # every second case of every operation, cycling through large and small units
            cse["units"] = cyc[(k // 2 + int(urng.integers(1))) % len(cyc)][: len(cse["spec"]["dims"])]
    return cases


def _inf_range_mech(model, ref, j, x, got, want, tol, what):
    """Predicate of the known finding 'marginal-quadrature-over-0-inf-loses-a-narrow-density': the documented algorithm
    itself - scipy's nquad of the model's joint pdf with the other variables over (0, inf) - reproduces virocon's value,
    while the SAME integrand (virocon's own pdf) over finite limits that cover the bulk of the other variables gives the
    reference value.  So the density is right and the (0, inf) quadrature lost it."""
    from scipy import integrate

    d = ref.n_dim
    others = [i for i in range(d) if i != j][::-1]
    order = others + [j]

    def f(*args):
        pt = np.array(args, float)[np.argsort(order)].reshape(1, d)
        return float(np.asarray(model.pdf(pt), float)[0])

    try:
        with np.errstate(all="ignore"), M.quiet():
            fin = []
            for i in others:
                lo, hi = ref.dim_range(i, eps=1e-10)
                fin.append((max(0.0, float(lo)), float(hi)))
            if what == "pdf":
                v_inf, _ = integrate.nquad(f, [(0, np.inf)] * len(others), args=[x])
                v_fin, _ = integrate.nquad(f, fin, args=[x], opts={"limit": 200})
            else:
                v_inf, _ = integrate.nquad(f, [(0, np.inf)] * len(others) + [(0, x)])
                v_fin, _ = integrate.nquad(f, fin + [(0, x)], opts={"limit": 200})
    except Exception:  # noqa: BLE001
        return None
    same_as_algorithm = abs(v_inf - got) <= 1e-9 * max(abs(got), 1e-300) + 1e-300
    finite_is_right = abs(v_fin - want) <= 1e-3 * max(abs(want), 1e-12) + 10 * tol
    if same_as_algorithm and finite_is_right:
        return "marginal-quadrature-over-0-inf-loses-a-narrow-density"
    return None


def _overflows_in_range(ref):
    g = np.logspace(0, 307, 62)
    for i, c in enumerate(ref.cond):
        if c is None:
            continue
        with np.errstate(all="ignore"):
            try:
                p = ref.params_at(i, g)
            except Exception:  # noqa: BLE001
                return True
        for v in p.values():
            if not np.all(np.isfinite(np.broadcast_to(np.asarray(v, float), g.shape))):
                return True
    return False


def _points(ref, rng, n):
    X = ref.sample(n, rng)
    X = np.abs(X[np.all(np.isfinite(X), axis=1)])
    # tails: push single coordinates to extreme quantiles
    return X


def _quantile_point(ref, qs):
    """A point whose coordinates are the q-quantiles along the chain (inverse Rosenblatt)."""
    from scipy import special as sp

    U = np.array([[float(sp.ndtri(q)) for q in qs]])
    return ref.inv_rosenblatt(U)[0]


def run_case(case, ctx):
    spec = case["spec"]
    if case.get("units"):
        scaled = S.rescale_spec(spec, case["units"])
        if scaled is not None:
            spec = scaled
            case["spec"] = scaled  # the factorisation monitor reads the spec of the running case
            ctx.cls("units", "x".join(f"{u:g}" for u in case["units"]))
    rng = np.random.default_rng(case["sub"])
    model = S.build_virocon(spec)
    ref = S.RefModel(spec)
    d = ref.n_dim
    ctx.cls("op", case["op"])
    ctx.cls("structure", ref.cond)
    ctx.cls("n_dim", d)
    ctx.sig = f"{S.spec_signature(spec)}|{case['op']}|{case.get('dim')}|{case.get('q')}"
    ctx.nontrivial = any(c is not None for c in ref.cond)
    info = {"structure": ref.cond, "signature": S.spec_signature(spec)}
    with warnings.catch_warnings():
        warnings.simplefilter("ignore")
        op = case["op"]
        if op == "pdf":
            X = _points(ref, rng, 40)
            a = np.asarray(model.pdf(X), float)
            forms = {
                "list": X.tolist(),
                "tuple": tuple(map(tuple, X.tolist())),
                "row-vector": X[0],
                "row-list": X[0].tolist(),
            }
            d_ = X.shape[1]
            # shapes that invite broadcasting slips: exactly n_dim rows, a single row as (1, n_dim), Fortran order, a view
            sq = np.asarray(model.pdf(X[:d_]), float)
            ctx.check("c06.pdf-forms", sq.shape == (d_,) and bool(np.all(sq == a[:d_])), "joint pdf of exactly n_dim rows differs from the same rows inside a longer array", form="n-equals-n_dim", **info)
            one = np.asarray(model.pdf(X[:1]), float)
            ctx.check("c06.pdf-forms", one.shape == (1,) and bool(np.all(one == a[:1])), "joint pdf of a (1, n_dim) array differs", form="(1,n_dim)", **info)
            fo = np.asarray(model.pdf(np.asfortranarray(X)), float)
            ctx.check("c06.pdf-forms", fo.shape == a.shape and bool(np.all(fo == a)), "joint pdf of a Fortran-ordered array differs", form="fortran", **info)
            wide = np.c_[X, X][:, : d_]
            vw = np.asarray(model.pdf(wide), float)
            ctx.check("c06.pdf-forms", vw.shape == a.shape and bool(np.all(vw == a)), "joint pdf of a non-contiguous view differs", form="view", **info)
            for _rep in range(3):  # the third call, not only the second
                again = np.asarray(model.pdf(X), float)
            ctx.check("c06.pdf-forms", bool(np.all(again == a)), "joint pdf differs on a repeated call", form="repeat", **info)
            for name, val in forms.items():
                try:
                    g = np.asarray(model.pdf(val), float)
                    want = a if not name.startswith("row") else a[:1]
                    ctx.check("c06.pdf-forms", g.shape == want.shape and bool(np.all(g == want)), f"joint pdf of a {name} input differs from the (n, n_dim) float array", form=name, **info)
                except Exception as e:  # noqa: BLE001
                    ctx.check("c06.pdf-forms", False, f"joint pdf rejects a {name} input (array_like documented): {type(e).__name__}", form=name, message=str(e)[:100], **info)
            Xi = np.maximum(np.round(X[:12]), 1).astype(np.int64)
            gi = np.asarray(model.pdf(Xi), float)
            gf = np.asarray(model.pdf(Xi.astype(float)), float)
            okint = gi.shape == gf.shape and bool(np.array_equal(gi, gf, equal_nan=True))
            ctx.check("c06.pdf-forms", okint, "joint pdf of an integer array differs from the same values as floats", "joint-pdf-integer-input-truncated" if (not okint and np.all(gi == np.trunc(gi))) else None, form="int-ndarray", got=gi[:3], want=gf[:3], **info)
            ctx.sample = {"op": op, **info, "n_points": int(len(X)), "first_point": X[0].tolist(), "pdf": float(a[0])}
        elif op == "cdf":
            x = _quantile_point(ref, case["q"])
            got = float(np.asarray(model.cdf(x.reshape(1, -1)), float)[0])
            want, err = ref_joint_cdf(ref, x)
            # (the joint cdf is scipy's nested adaptive quadrature with default tolerances; its error grows with the
            #  ratio range / peak width - 3.8e-6 seen for a variable in units of 1e3 - while a wrong integrand or wrong
            #  limits are off by 1e-3 and more: 2e-5 is allowed)
            tol = 2e-5 + 10 * err
            ctx.check("c06.cdf", abs(got - want) <= tol, "joint cdf is not the integral of the joint pdf over the lower-left orthant", point=x.tolist(), got=got, want=want, tolerance=tol, **info)
            ctx.check("c06.cdf-range", -1e-9 <= got <= 1 + 1e-9, "joint cdf outside [0,1]", got=got, **info)
            # list input
            got_l = float(np.asarray(model.cdf([list(map(float, x))]), float)[0]) if d == 2 else got
            ctx.check("c06.cdf-forms", abs(got_l - got) <= 1e-12, "joint cdf of a list differs from the array", **info)
            ctx.sample = {"op": op, **info, "point": x.tolist(), "cdf": got, "reference": want}
        elif op in ("marginal", "marginal-pdf-3d", "marginal-cdf-3d") and _overflows_in_range(ref):
            # marginal_* integrates the other variables over (0, inf) as documented; a dependence function that is not
            # finite somewhere in that range (c * x**2 overflows at 1e154) is an ill-formed request there
            ctx.count("c06.skipped-dependence-not-finite-on-the-integration-range")
            ctx.nontrivial = False
        elif op in ("marginal", "marginal-pdf-3d", "marginal-cdf-3d"):
            j = case["dim"]
            qs = [0.5] * d
            qs[j] = case["q"]
            x = float(_quantile_point(ref, qs)[j])
            xs = np.array([x])
            if op in ("marginal", "marginal-pdf-3d"):
                got = float(np.asarray(model.marginal_pdf(xs, j), float)[0])
                want, err = ref_marginal(ref, j, x, "pdf")
                tol = 1e-6 * max(1.0, abs(want)) + 10 * err
                okm = abs(got - want) <= tol
                ctx.check("c06.marginal-pdf", okm, "marginal_pdf of a conditional variable is not the integral of the joint density over the other variables", None if okm else _inf_range_mech(model, ref, j, x, got, want, tol, "pdf"), dim=j, x=x, got=got, want=want, tolerance=tol, **info)
            if op in ("marginal", "marginal-cdf-3d"):
                got = float(np.asarray(model.marginal_cdf(xs, j), float)[0])
                want, err = ref_marginal(ref, j, x, "cdf")
                tol = 1e-6 + 10 * err
                okm = abs(got - want) <= tol
                ctx.check("c06.marginal-cdf", okm, "marginal_cdf of a conditional variable is not the integral of its marginal density", None if okm else _inf_range_mech(model, ref, j, x, got, want, tol, "cdf"), dim=j, x=x, got=got, want=want, tolerance=tol, **info)
            # unconditional variable: marginal_* are the distribution's own functions
            k = 0
            xu = np.array([float(_quantile_point(ref, [0.3] * d)[0]), float(_quantile_point(ref, [0.8] * d)[0])])
            ctx.check("c06.marginal-unconditional", bool(np.all(np.asarray(model.marginal_pdf(xu, k)) == np.asarray(model.distributions[k].pdf(xu))) and np.all(np.asarray(model.marginal_cdf(xu, k)) == np.asarray(model.distributions[k].cdf(xu)))), "marginal_pdf/cdf of an unconditional variable differ from its distribution", **info)
            ctx.sample = {"op": op, **info, "dim": j, "x": x}
        elif op == "marginal-icdf":
            j = case["dim"]
            p = np.array([0.1, 0.5, 0.9, 0.99])
            # unconditional: exact
            gu = np.asarray(model.marginal_icdf(p, 0), float)
            wu = np.asarray(R.icdf(ref.dims[0]["fam"], p, **ref.params_at(0, None)), float)
            ctx.check("c06.marginal-icdf", bool(np.all(np.abs(gu - wu) <= 1e-8 * np.abs(wu))), "marginal_icdf of an unconditional variable is not its icdf", got=gu, want=wu, **info)
            pf = float(rng.choice([1.0, 0.5]))
            got = np.asarray(model.marginal_icdf(p, j, precision_factor=pf), float)
            n = max(int(100 * pf / float(min(p.min(), 1 - p.max()))), 100000)
            eps = stats.dkw_eps(n)
            ok = True
            wit = None
            for pi, xi in zip(p, got):
                Fx, err = ref_marginal(ref, j, float(xi), "cdf")
                if abs(Fx - pi) > eps + 1e-6 + 10 * err:
                    ok, wit = False, {"p": float(pi), "x": float(xi), "reference_cdf_at_x": Fx, "dkw_eps": eps, "n": n}
            ctx.check("c06.marginal-icdf", ok, "marginal_icdf of a conditional variable is outside the Monte-Carlo (DKW) band around the exact marginal quantile", witness=wit, dim=j, **info)
            if d == 2:
                # marginal_cdf(marginal_icdf(p)) = p with the real functions (quadrature + MC error)
                back = np.asarray(model.marginal_cdf(got[:2], j), float)
                ctx.check("c06.marginal-roundtrip", bool(np.all(np.abs(back - p[:2]) <= eps + 1e-5)), "marginal_cdf(marginal_icdf(p)) differs from p beyond Monte-Carlo / quadrature error", got=back, want=p[:2], eps=eps, **info)
            ctx.sample = {"op": op, **info, "dim": j, "p": p.tolist(), "x": got.tolist(), "n_mc": n}
        elif op == "marginal-icdf-history":
            # history: quantile of model A, then the SAME object gets the parameters of another model (what a re-fit
            # does), then the quantile again - it must be the quantile of the new parameters
            from virocon import GlobalHierarchicalModel

            j = case["dim"]
            p = np.array([0.5, 0.9])
            first = np.asarray(model.marginal_icdf(p, j), float)
            spec2 = case["spec2"]
            donor = S.build_virocon(spec2)
            model.distributions[0] = donor.distributions[0]
            model.distributions[1] = donor.distributions[1]
            ref2 = S.RefModel(spec2)
            got = np.asarray(model.marginal_icdf(p, j), float)
            n = 100000
            eps = stats.dkw_eps(n)
            ok, wit = True, None
            for pi, xi in zip(p, got):
                Fx, err = ref_marginal(ref2, j, float(xi), "cdf")
                if abs(Fx - pi) > eps + 1e-6 + 10 * err:
                    ok, wit = False, {"p": float(pi), "x": float(xi), "reference_cdf_of_the_current_parameters_at_x": Fx, "first_call_returned": first.tolist()}
            ctx.check("c06.marginal-icdf", ok, "marginal_icdf after the model's parameters changed is not a quantile of the current model (stale Monte-Carlo state)", witness=wit, dim=j, **info)
            ctx.sample = {"op": op, **info, "p": p.tolist(), "before": first.tolist(), "after": got.tolist()}
        elif op == "fitted-factorisation":
            from virocon import DependenceFunction, GlobalHierarchicalModel, LogNormalDistribution, WeibullDistribution, WidthOfIntervalSlicer

            n = case["n"]
            hs = rng.weibull(1.5, n) * 2.2 + 0.05
            tz = np.exp(0.9 + 0.55 * hs**0.45 + (0.06 + 0.2 * np.exp(-0.3 * hs)) * rng.standard_normal(n))

            def _p3(x, a=1.0, b=0.5, c=0.5):
                return a + b * x**c

            def _e3(x, a=0.1, b=0.3, c=-0.2):
                return a + b * np.exp(c * x)

            b3 = [(0, None), (0, None), (None, None)]
            fm = GlobalHierarchicalModel([
                {"distribution": WeibullDistribution(f_gamma=0), "intervals": WidthOfIntervalSlicer(0.5, min_n_points=30)},
                {"distribution": LogNormalDistribution(), "conditional_on": 0, "parameters": {"mu": DependenceFunction(_p3, b3), "sigma": DependenceFunction(_e3, b3)}},
            ])
            fm._vmon_dimspecs_unknown = True  # (fitted parameters: no spec for the factorisation monitor; judged below)
            fm.fit(np.c_[hs, tz], [{"method": "mle"}, {"method": "mle"}])
            cd = fm.distributions[1]
            x0 = np.r_[np.quantile(hs, [0.1, 0.5, 0.9]), hs.max() * np.array([1.05, 1.5, 2.5]), hs.min() * np.array([0.5, 0.1])]
            mu, sg = np.asarray(cd.conditional_parameters["mu"](x0), float), np.asarray(cd.conditional_parameters["sigma"](x0), float)
            x1 = np.exp(mu + sg * rng.standard_normal(x0.size))
            P = np.c_[x0, x1]
            got = np.asarray(fm.pdf(P), float)
            p0f = fm.distributions[0].parameters
            want = np.asarray(R.pdf("weibull", x0, alpha=p0f["alpha"], beta=p0f["beta"], gamma=p0f["gamma"]), float) * np.asarray(R.pdf("lognormal", x1, mu=mu, sigma=sg), float)
            okf = np.abs(got - want) <= 1e-9 * np.abs(want) + 1e-300
            jf = int(np.argmin(okf))
            ctx.check("c06.fitted-factorisation", bool(np.all(okf)), "fitted model: the joint pdf is not the product of the marginal density and the conditional density at the fitted dependence values (inside and outside the fitted range)", point=P[jf].tolist(), got=float(got[jf]), want=float(want[jf]), fitted_range=[float(hs.min()), float(hs.max())])
            # the conditional pdf is the derivative of the conditional cdf at the same conditioning value
            h = 1e-5 * x1
            num = (np.asarray(cd.cdf(x1 + h, x0), float) - np.asarray(cd.cdf(x1 - h, x0), float)) / (2 * h)
            an = np.asarray(cd.pdf(x1, x0), float)
            okd = np.abs(num - an) <= 1e-5 * np.abs(an) + 1e-12
            ctx.check("c06.fitted-factorisation", bool(np.all(okd)), "fitted model: the conditional pdf is not the derivative of the conditional cdf at the same conditioning value", given=float(x0[int(np.argmin(okd))]), numeric=float(num[int(np.argmin(okd))]), pdf=float(an[int(np.argmin(okd))]))
            ctx.nontrivial = True
            ctx.sample = {"op": op, "n": n, "fitted_marginal": {k_: float(v_) for k_, v_ in p0f.items()}}
        elif op == "total-mass":
            lims = [[0, float(ref.dim_range(i, eps=1e-12)[1])] for i in range(d)]
            val, err = integrate.nquad(lambda *a: float(model.pdf(np.array(a).reshape(1, d))[0]), lims, opts={"epsabs": 1e-8, "epsrel": 1e-7, "limit": 60})
            ctx.check("c06.total-mass", abs(val - 1.0) <= 1e-5 + 10 * err, "the joint pdf does not integrate to one", integral=val, error_estimate=err, **info)
            ctx.sample = {"op": op, **info, "integral": val}
