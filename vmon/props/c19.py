"""C19 - evaluation is pure and repeatable; predefined models share no state."""
import copy
import itertools
import math
import os
import shutil
import tempfile
import types
import warnings

import numpy as np

from .. import monitors as M
from .. import specs as S

ID = "C19"
LEVEL = "exploration"
RULE = (
    "cases: (entrypoints) random 2-D/3-D model specs: every public evaluation entry point (pdf, cdf, icdf, marginal_*, conditional_*, seeded draw_sample of "
    "distributions, conditional distributions and joint models) is called with ndarray/list arguments under a monitor that takes a deep snapshot of the model "
    "(all attributes, parameter dicts, dependence-function state, slicers, class-level containers) and copies of the caller's arrays before, compares after, and "
    "repeats deterministic calls; (contours) the six contour classes with a supplied sample, design conditions, plotting, saving; (history) random interleavings of "
    "length <= 6 of {evaluate A, contour A, fit B, re-create from getter, fit A'} over the six predefined getters: A's snapshot and values must not change, and a model "
    "fitted from a fresh description must not depend on what was fitted before; (idgraph) two calls of each getter share no mutable node reachable from the returned objects. "
    "Non-trivial = a snapshot comparison around a call that received an array / a history with at least one fit between two evaluations; distinct by (kind, spec or getter, sequence)."
    ' Also: negative / zero coordinates in caller arrays; a transformed model with random_state: results independent of what was evaluated in between and equal to a twin.'
)
ASSUMPTIONS = [
    "state that existed before a call must be unchanged after it; attributes created by the call (lazy caches) are counted, not judged (they are not 'the model's parameters')",
    "deep snapshot covers instance attributes recursively, dict/list/set/ndarray contents, function defaults and closure cells, and class-level container attributes of virocon classes",
    "functions / classes / modules themselves are treated as immutable nodes",
]
REQUIRED = ["c19.model-unchanged", "c19.arrays-unchanged", "c19.repeatable", "c19.history-independent", "c19.no-shared-mutable-node", "c19.template-unchanged"]
CASE_TIMEOUT_S = 900
GETTERS = ["get_DNVGL_Hs_Tz", "get_DNVGL_Hs_U", "get_OMAE2020_Hs_Tz", "get_OMAE2020_V_Hs", "get_Windmeier_EW_Hs_S", "get_Nonzero_EW_Hs_S"]


# ----------------------------------------------------------------------
# deep snapshot
# ----------------------------------------------------------------------
def snap(o, seen=None, depth=0):
    if seen is None:
        seen = {}
    if depth > 14:
        return "<deep>"
    if o is None or isinstance(o, (bool, int, float, complex, str, bytes)):
        return o if not (isinstance(o, float) and math.isnan(o)) else "nan"
    if isinstance(o, np.generic):
        return snap(o.item(), seen, depth + 1)
    oid = id(o)
    if oid in seen:
        return ("<ref>", seen[oid])
    seen[oid] = len(seen)
    if isinstance(o, np.ndarray):
        if o.dtype == object:
            return ("ndarray-object", o.shape, tuple(snap(v, seen, depth + 1) for v in o.ravel().tolist()))
        return ("ndarray", str(o.dtype), o.shape, o.tobytes())
    if isinstance(o, dict):
        return ("dict", tuple((repr(k) if not isinstance(k, (str, int)) else k, snap(v, seen, depth + 1)) for k, v in o.items()))
    if isinstance(o, (list, tuple)):
        return (type(o).__name__, tuple(snap(v, seen, depth + 1) for v in o))
    if isinstance(o, (set, frozenset)):
        return ("set", tuple(sorted(repr(snap(v, seen, depth + 1)) for v in o)))
    if isinstance(o, (types.FunctionType, types.BuiltinFunctionType, types.MethodType, type, types.ModuleType)):
        if isinstance(o, types.FunctionType):
            cells = tuple(snap(c.cell_contents, seen, depth + 1) if _has_contents(c) else "<empty>" for c in (o.__closure__ or ()))
            return ("function", o.__qualname__, snap(o.__defaults__, seen, depth + 1), cells)
        return ("callable", getattr(o, "__qualname__", repr(o)))
    import functools

    if isinstance(o, functools.partial):
        return ("partial", snap(o.func, seen, depth + 1), snap(o.args, seen, depth + 1), snap(o.keywords, seen, depth + 1))
    if isinstance(o, np.random.Generator):
        return ("Generator", repr(o.bit_generator.state))
    d = getattr(o, "__dict__", None)
    if d is not None:
        cls = type(o)
        cls_state = ()
        if cls.__module__.startswith("virocon"):
            cls_state = tuple(
                (k, snap(v, seen, depth + 1))
                for klass in cls.__mro__
                if klass.__module__.startswith("virocon")
                for k, v in vars(klass).items()
                if isinstance(v, (dict, list, set)) and not k.startswith("__")
            )
        return ("object", cls.__module__ + "." + cls.__qualname__, tuple((k, snap(v, seen, depth + 1)) for k, v in d.items()), cls_state)
    return ("repr", repr(o)[:200])


def _has_contents(cell):
    try:
        cell.cell_contents
        return True
    except ValueError:
        return False


def mutable_nodes(o, out=None, depth=0):
    """ids of mutable nodes reachable from o through instances (not through classes / modules / function globals)."""
    if out is None:
        out = {}
    if depth > 14 or o is None or isinstance(o, (bool, int, float, complex, str, bytes, np.generic, type, types.ModuleType, types.BuiltinFunctionType)):
        return out
    oid = id(o)
    if oid in out:
        return out
    import functools

    if isinstance(o, np.ndarray):
        out[oid] = "ndarray"
        return out
    if isinstance(o, dict):
        out[oid] = "dict"
        for v in o.values():
            mutable_nodes(v, out, depth + 1)
        return out
    if isinstance(o, (list, set)):
        out[oid] = type(o).__name__
        for v in o:
            mutable_nodes(v, out, depth + 1)
        return out
    if isinstance(o, (tuple, frozenset)):
        for v in o:
            mutable_nodes(v, out, depth + 1)
        return out
    if isinstance(o, types.FunctionType):
        for c in o.__closure__ or ():
            if _has_contents(c):
                mutable_nodes(c.cell_contents, out, depth + 1)
        return out
    if isinstance(o, types.MethodType):
        mutable_nodes(o.__self__, out, depth + 1)
        return out
    if isinstance(o, functools.partial):
        mutable_nodes(o.func, out, depth + 1)
        mutable_nodes(o.args, out, depth + 1)
        mutable_nodes(o.keywords, out, depth + 1)
        return out
    d = getattr(o, "__dict__", None)
    if d is not None:
        out[oid] = type(o).__name__
        for v in d.values():
            mutable_nodes(v, out, depth + 1)
    return out


# ----------------------------------------------------------------------
# monitors: snapshot before / compare after, on every public evaluation entry point
# ----------------------------------------------------------------------
def _arrays(args, kwargs):
    out = []
    for v in list(args) + list(kwargs.values()):
        if isinstance(v, np.ndarray):
            out.append((v, v.copy()))
        elif isinstance(v, list) and v and isinstance(v[0], (int, float, list)):
            out.append((v, copy.deepcopy(v)))
    return out


def _pre(root_of):
    def pre(call):
        root = root_of(call)
        return {"snap": snap(root), "arrays": _arrays(call.args, call.kwargs)}

    return pre


def _post(label, root_of):
    def post(call):
        c = M.current()
        if c is None:
            return
        root = root_of(call)
        after = snap(root)
        new_attrs = []
        same = not changed(call.pre["snap"], after, new_attrs)
        if new_attrs:
            c.count("c19.new-attributes-after-call(not-judged)", len(new_attrs))
        c.check("c19.model-unchanged", same, f"{label}: the object's state differs after the call", entry=label, diff=_diff(call.pre["snap"], after) if not same else None)
        for live, before in call.pre["arrays"]:
            if isinstance(live, np.ndarray):
                ok = live.shape == before.shape and live.dtype == before.dtype and live.tobytes() == before.tobytes()  # NaN-safe
            else:
                ok = live == before
            c.check("c19.arrays-unchanged", bool(ok), f"{label}: a caller's array was modified", entry=label)

    return post


def changed(before, after, new_attrs=None):
    """True if any state that existed BEFORE the call differs afterwards.  Attributes that did not exist before
    (lazily created caches) are not 'the model's parameters': they are collected in new_attrs, not judged - a stale
    cache is caught by the repeat-evaluation and history clauses, and by the owning property's check."""
    if type(before) != type(after):
        return True
    if isinstance(before, tuple) and len(before) == 4 and before and before[0] == "object" and isinstance(after, tuple) and len(after) == 4 and after[0] == "object":
        if before[1] != after[1] or before[3] != after[3]:
            return True
        a_attrs = dict(after[2])
        for k, v in before[2]:
            if k not in a_attrs:
                return True
            if changed(v, a_attrs[k], new_attrs):
                return True
        if new_attrs is not None:
            for k in a_attrs:
                if k not in dict(before[2]):
                    new_attrs.append(f"{before[1]}.{k}")
        return False
    if isinstance(before, tuple):
        if len(before) != len(after):
            return True
        return any(changed(x, y, new_attrs) for x, y in zip(before, after))
    return before != after


def _diff(a, b, path="", out=None, limit=4):
    out = [] if out is None else out
    if len(out) >= limit:
        return out
    if type(a) != type(b) or (isinstance(a, tuple) and len(a) != len(b)):
        out.append(f"{path}: {str(a)[:80]} -> {str(b)[:80]}")
        return out
    if isinstance(a, tuple):
        for i, (x, y) in enumerate(zip(a, b)):
            if x != y:
                name = x[0] if (isinstance(x, tuple) and len(x) == 2 and isinstance(x[0], str)) else i
                _diff(x, y, f"{path}/{name}", out, limit)
        return out
    if a != b:
        out.append(f"{path}: {str(a)[:80]} -> {str(b)[:80]}")
    return out


_DONE = [False]


def install():
    if _DONE[0]:
        return
    _DONE[0] = True
    import virocon
    import virocon.contours as vc
    import virocon.jointmodels as vj
    import virocon.utils as vu
    from virocon.distributions import ConditionalDistribution

    self_root = lambda call: call.self  # noqa: E731
    for cls in set(S.classes().values()) | {ConditionalDistribution}:
        for name in ("cdf", "pdf", "icdf", "draw_sample"):
            owner = next(k for k in cls.__mro__ if name in k.__dict__)
            M.wrap(owner, name, pre=_pre(self_root), post=_post(f"{owner.__name__}.{name}", self_root), tag="c19", outermost_only=True)
    for name in ("pdf", "cdf", "marginal_pdf", "marginal_cdf", "marginal_icdf", "draw_sample", "conditional_cdf", "conditional_icdf"):
        owner = next(k for k in vj.GlobalHierarchicalModel.__mro__ if name in k.__dict__)
        M.wrap(owner, name, pre=_pre(self_root), post=_post(f"{owner.__name__}.{name}", self_root), tag="c19", outermost_only=True)
    model_root = lambda call: (getattr(call.self, "model", None), getattr(call.self, "sample", None))  # noqa: E731
    for cls in (vc.IFORMContour, vc.ISORMContour, vc.HighestDensityContour, vc.DirectSamplingContour, vc.AndContour, vc.OrContour):
        M.wrap(cls, "_compute", pre=_pre(model_root), post=_post(f"{cls.__name__}._compute", model_root), tag="c19", outermost_only=True)
    arg0 = lambda call: call.args[0] if call.args else None  # noqa: E731
    M.wrap(vu, "calculate_design_conditions", pre=_pre(arg0), post=_post("calculate_design_conditions", arg0), tag="c19", is_method=False, outermost_only=True)
    virocon.calculate_design_conditions = vu.calculate_design_conditions
    import virocon.plotting as vp

    vp.calculate_design_conditions = vu.calculate_design_conditions
    M.wrap(vc, "save_contour_coordinates", pre=_pre(arg0), post=_post("save_contour_coordinates", arg0), tag="c19", is_method=False, outermost_only=True)
    virocon.save_contour_coordinates = vc.save_contour_coordinates
    for name in ("plot_2D_contour", "plot_2D_isodensity", "plot_dependence_functions", "plot_marginal_quantiles", "plot_histograms_of_interval_distributions"):
        M.wrap(vp, name, pre=_pre(arg0), post=_post(name, arg0), tag="c19", is_method=False, outermost_only=True)
        setattr(virocon, name, getattr(vp, name))


# ----------------------------------------------------------------------
def gen_cases(tier, seed):
    rng = np.random.default_rng([seed, 19])
    cases = []
    n_ep = 24 if tier == "quick" else 400
    for i in range(n_ep):
        cases.append({"kind": "entrypoints", "n_dim": 2 if i % 3 else (3 if i % 2 else 4), "sub": int(rng.integers(1 << 31))})
    for i in range(12 if tier == "quick" else 200):
        cases.append({"kind": "contours", "sub": int(rng.integers(1 << 31)), "cost": 3})
    ops = ["evalA", "contourA", "fitB", "recreate", "fitA2", "evalA"]
    n_hist = 30 if tier == "quick" else 500
    for i in range(n_hist):
        L = int(rng.integers(3, 7))
        seq = [str(rng.choice(ops)) for _ in range(L)]
        if "fitB" not in seq and "fitA2" not in seq:
            seq[int(rng.integers(L))] = "fitB"
        cases.append({"kind": "history", "getterA": GETTERS[i % 6], "getterB": GETTERS[int(rng.integers(6))] if i % 2 else GETTERS[i % 6], "seq": seq, "sub": int(rng.integers(1 << 31)), "cost": 6})
    for g in GETTERS:
        cases.append({"kind": "idgraph", "getter": g})
    for i in range(3 if tier == "quick" else 30):
        cases.append({"kind": "transformed", "variant": ["windmeier", "random", "nonzero"][i % 3], "sub": int(rng.integers(1 << 31)), "cost": 4})
    for i in range(6 if tier == "quick" else 60):
        cases.append({"kind": "template", "sub": int(rng.integers(1 << 31)), "cost": 2})
    return cases


def _equal(a, b):
    if isinstance(a, (list, tuple)) and isinstance(b, (list, tuple)):
        return len(a) == len(b) and all(_equal(x, y) for x, y in zip(a, b))
    a, b = np.asarray(a), np.asarray(b)
    if a.shape != b.shape:
        return False
    if a.dtype == object or b.dtype == object:
        return all(_equal(x, y) for x, y in zip(a.ravel().tolist(), b.ravel().tolist()))
    return bool(np.all((a == b) | (np.isnan(a.astype(float)) & np.isnan(b.astype(float)))))


def _transformed(case, ctx):
    """A TransformedModel whose random_state is set is deterministic: its Monte-Carlo quantiles and IFORM contour do not
    depend on what else was evaluated on the object before, and equal those of a twin built from the same description."""
    from virocon import IFORMContour
    from . import c16

    rng = np.random.default_rng(case["sub"])
    spec = c16.hs_s_spec(rng, case["variant"])
    seed = int(rng.integers(1, 1 << 30))
    tm, _ = c16.build_transformed(spec, random_state=seed)
    twin, _ = c16.build_transformed(spec, random_state=seed)
    p = np.array([0.1, 0.5, 0.9, 0.99])
    ctx.nontrivial = True
    ctx.sample = {"kind": "transformed", "variant": case["variant"], "random_state": seed}
    a0 = np.asarray(tm.marginal_icdf(p, 0), float)
    a1 = np.asarray(tm.marginal_icdf(p, 1), float)
    c0 = np.asarray(IFORMContour(tm, 0.02, n_points=8).coordinates, float)
    ctx.check("c19.repeatable", _equal(a0, tm.marginal_icdf(p, 0)), "transformed model (random_state set): marginal_icdf is not repeatable", entry="marginal_icdf")
    with np.errstate(all="ignore"):
        tm.empirical_cdf(c0[:2])  # fills the lazily cached (unseeded) sample
        try:
            _ = tm.pdf(c0[:2])
        except ValueError:
            ctx.count("c19.transformed-pdf-rejected-a-contour-point")  # (a point with a zero coordinate maps to inf: reported)
    ctx.check("c19.history-independent", _equal(a0, tm.marginal_icdf(p, 0)) and _equal(a1, tm.marginal_icdf(p, 1)), "transformed model (random_state set): marginal_icdf changes after empirical_cdf() was evaluated on the same object", entry="marginal_icdf", before=a0, after=np.asarray(tm.marginal_icdf(p, 0), float))
    ctx.check("c19.history-independent", _equal(c0, IFORMContour(tm, 0.02, n_points=8).coordinates), "transformed model (random_state set): the IFORM contour changes after empirical_cdf() was evaluated on the same object", entry="IFORMContour")
    ctx.check("c19.history-independent", _equal(a0, twin.marginal_icdf(p, 0)) and _equal(c0, IFORMContour(twin, 0.02, n_points=8).coordinates), "transformed model (random_state set): results differ from a twin built from the same description", entry="twin")


def run_case(case, ctx):
    ctx.cls("kind", case["kind"])
    ctx.sig = str({k: v for k, v in case.items() if k not in ("id", "cost")})
    import matplotlib.pyplot as plt

    try:
        with warnings.catch_warnings():
            warnings.simplefilter("ignore")
            try:
                {"entrypoints": _entrypoints, "contours": _contours, "history": _history, "idgraph": _idgraph, "template": _template, "transformed": _transformed}[case["kind"]](case, ctx)
            except _ReportedFitFailure as e:
                ctx.count("c19.reported-fit-failure-skipped")
                ctx.notes["skipped"] = str(e)
    finally:
        plt.close("all")


def _twice(ctx, label, f):
    a = f()
    b = f()
    ctx.check("c19.repeatable", _equal(a, b), f"{label}: repeating a deterministic evaluation gives a different result", entry=label)
    return a


def _entrypoints(case, ctx):
    rng = np.random.default_rng(case["sub"])
    st = S.all_structures(min(case["n_dim"], 4))
    spec = S.gen_spec(rng, structure=st[int(rng.integers(len(st)))], nonneg=True)
    model = S.build_virocon(spec)
    ref = S.RefModel(spec)
    X = ref.sample(40, rng)
    X = np.abs(X[np.all(np.isfinite(X), axis=1)])
    ctx.nontrivial = True
    ctx.sample = {"kind": "entrypoints", "signature": S.spec_signature(spec), "n_points": int(len(X))}
    _twice(ctx, "model.pdf(ndarray)", lambda: model.pdf(X))
    _twice(ctx, "model.pdf(list)", lambda: model.pdf(X[:3].tolist()))
    _twice(ctx, "model.pdf(row)", lambda: model.pdf(X[0]))
    # values a caller's array may hold although they are outside the support: negative and zero coordinates (the result
    # may be 0 / nan / an exception - what is judged is that the caller's array and the model are left alone)
    Xh = X[np.argsort(X.sum(axis=1))[:3]].copy()  # (the three smallest points: short integration ranges for the cdf)
    Xh[0, 0] = -abs(Xh[0, 0]) - 0.5
    Xh[1, -1] = 0.0
    Xh[2, :] = -Xh[2, :]
    for lbl, fn in (("model.pdf(negative/zero coordinates)", lambda: model.pdf(Xh)), ("model.cdf(negative coordinate)", lambda: model.cdf(Xh[:1])), ("model.cdf(1-D point, negative coordinate)", lambda: model.cdf(Xh[2])), ("model.cdf(int array, negative)", lambda: model.cdf(np.array([[-1] + [2] * (Xh.shape[1] - 1)])))):
        if "cdf" in lbl and (case["n_dim"] != 2 or int(case["sub"]) % 3 != (0 if "1-D" in lbl else 1 if "int" in lbl else 2)):
            continue  # (a joint cdf is a 2-D quadrature: one of the three forms per case)
        try:
            with np.errstate(all="ignore"), warnings.catch_warnings():
                warnings.simplefilter("ignore")
                if "cdf" in lbl:
                    fn()  # once: the purity monitor judges the caller's array and the model on every call
                else:
                    _twice(ctx, lbl, fn)
            ctx.count("c19.out-of-support-values")
        except (ValueError, ArithmeticError) as e:
            ctx.count(f"c19.out-of-support-rejected[{type(e).__name__}]")
    _twice(ctx, "model.draw_sample(seed)", lambda: model.draw_sample(50, random_state=5))
    _twice(ctx, "model.draw_sample(seed=0)", lambda: model.draw_sample(50, random_state=0))
    _twice(ctx, "model.draw_sample(seed=np.int64(0))", lambda: model.draw_sample(50, random_state=np.int64(0)))
    for _k in range(3):  # the third call, with unseeded draws in between
        model.draw_sample(3)
    third = model.draw_sample(50, random_state=0)
    ctx.check("c19.repeatable", _equal(third, model.draw_sample(50, random_state=0)), "model.draw_sample(seed=0): not repeatable after unseeded draws in between", entry="draw_sample")
    p = np.array([0.1, 0.5, 0.9])
    for i, dist in enumerate(model.distributions):
        c_ = model.conditional_on[i]
        if c_ is None:
            _twice(ctx, "dist.cdf", lambda: dist.cdf(X[:, i]))
            _twice(ctx, "dist.pdf", lambda: dist.pdf(X[:, i]))
            _twice(ctx, "dist.icdf", lambda: dist.icdf(p))
            _twice(ctx, "dist.draw_sample", lambda: dist.draw_sample(7, random_state=3))
        else:
            g = X[:, c_]
            _twice(ctx, "cond.cdf", lambda: dist.cdf(X[:, i], g))
            _twice(ctx, "cond.pdf", lambda: dist.pdf(X[:, i], g))
            _twice(ctx, "cond.icdf", lambda: dist.icdf(np.full(len(g), 0.3), g))
            _twice(ctx, "cond.draw_sample", lambda: dist.draw_sample(1, g, random_state=3))
        _twice(ctx, "model.conditional_cdf", lambda: model.conditional_cdf(X[:, i], i, X))
        _twice(ctx, "model.conditional_icdf", lambda: model.conditional_icdf(np.full(len(X), 0.4), i, X))
    _twice(ctx, "model.marginal_icdf(unconditional)", lambda: model.marginal_icdf(p, 0))
    _twice(ctx, "model.marginal_pdf(unconditional)", lambda: model.marginal_pdf(X[:5, 0], 0))
    _twice(ctx, "model.marginal_cdf(unconditional)", lambda: model.marginal_cdf(X[:5, 0], 0))
    if case["n_dim"] >= 3:
        from virocon import IFORMContour, ISORMContour, HighestDensityContour

        _twice(ctx, "IFORMContour(3-D)", lambda: IFORMContour(model, 0.03, n_points=14).coordinates)
        _twice(ctx, "ISORMContour(3-D)", lambda: ISORMContour(model, 0.03, n_points=9).coordinates)
        lims = [(0.0, float(ref.dim_range(i, eps=1e-4)[1])) for i in range(case["n_dim"])]
        try:
            if case["n_dim"] != 3:
                raise IndexError
            _twice(ctx, "HighestDensityContour(3-D)", lambda: HighestDensityContour(model, 0.1, limits=lims, deltas=[(h - l) / 9 for l, h in lims]).coordinates)
        except IndexError:
            ctx.count("c19.hdc-coarse-skipped")
    if case["n_dim"] == 2:
        cond_dims = [i for i, c_ in enumerate(model.conditional_on) if c_ is not None]
        if cond_dims:
            i = cond_dims[0]
            xs = np.array([float(np.median(X[:, i]))])
            _twice(ctx, "model.marginal_pdf(conditional)", lambda: model.marginal_pdf(xs, i))
            model.marginal_icdf(np.array([0.5]), i)  # Monte-Carlo: purity only
        _twice(ctx, "model.cdf", lambda: model.cdf(X[:1]))


def _contours(case, ctx):
    import virocon
    from virocon import AndContour, DirectSamplingContour, HighestDensityContour, IFORMContour, ISORMContour, OrContour

    rng = np.random.default_rng(case["sub"])
    spec = S.gen_spec(rng, structure=[None, 0], fams=["weibull", "lognormal", "expweib", "lnnf"], allow_hostile=False)
    model = S.build_virocon(spec)
    ref = S.RefModel(spec)
    smp = np.abs(ref.sample(2500, rng))
    alpha = float(10 ** rng.uniform(-2.3, -1))
    ctx.nontrivial = True
    ctx.sample = {"kind": "contours", "signature": S.spec_signature(spec), "alpha": alpha}
    a = _twice(ctx, "IFORMContour", lambda: IFORMContour(model, alpha, n_points=24).coordinates)
    _twice(ctx, "ISORMContour", lambda: ISORMContour(model, alpha, n_points=24).coordinates)
    lims = [(0.0, float(ref.dim_range(i, eps=alpha * 1e-3)[1])) for i in range(2)]
    dl = [(h - l) / 40 for l, h in lims]
    try:
        _twice(ctx, "HighestDensityContour", lambda: HighestDensityContour(model, alpha, limits=lims, deltas=dl).coordinates)
    except IndexError:
        ctx.count("c19.hdc-coarse-skipped")
    ds = _twice(ctx, "DirectSamplingContour(sample)", lambda: DirectSamplingContour(model, alpha, sample=smp, deg_step=10).coordinates)
    try:
        # the AND/OR search starts from Monte-Carlo marginal quantiles (unseeded): purity is judged, repeatability only of the sample use
        AndContour(model, max(alpha, 5e-3), sample=smp, deg_step=15, allowed_error=0.1)
        OrContour(model, max(alpha, 5e-3), sample=smp, deg_step=15, allowed_error=0.1)
    except IndexError:
        ctx.count("c19.or-no-contour-skipped")
    # alpha handed over as the caller holds it - a 0-d or length-1 ndarray (np.loadtxt of one number, np.squeeze) - with
    # default grid / sample settings: the caller's object is not modified and repeating the call gives the same contour
    a_hdc = float(min(max(alpha, 0.02), 0.1))
    for holder in (np.array(a_hdc), np.array([a_hdc])):
        for label, mk in (
            ("HighestDensityContour(alpha ndarray, default limits)", lambda h: HighestDensityContour(model, h, deltas=[(hi - lo) / 30 for lo, hi in lims]).coordinates),
            ("IFORMContour(alpha ndarray)", lambda h: IFORMContour(model, h, n_points=12).coordinates),
            ("ISORMContour(alpha ndarray)", lambda h: ISORMContour(model, h, n_points=12).coordinates),
        ):
            try:
                with warnings.catch_warnings():
                    warnings.simplefilter("ignore")
                    r1 = mk(holder)
                    r2 = mk(holder)
            except (TypeError, ValueError, IndexError) as e:
                ctx.count(f"c19.alpha-holder-rejected[{type(e).__name__}]")
                continue
            ctx.check("c19.arrays-unchanged", bool(np.all(np.asarray(holder) == a_hdc)), f"{label}: the caller's alpha object was modified", entry=label, now=np.asarray(holder).ravel().tolist(), was=a_hdc)
            ctx.check("c19.repeatable", _equal(r1, r2), f"{label}: repeating the call gives a different contour", entry=label)
    con = IFORMContour(model, alpha, n_points=24)
    _twice(ctx, "calculate_design_conditions", lambda: virocon.calculate_design_conditions(con, steps=5))
    _twice(ctx, "calculate_design_conditions(swap)", lambda: virocon.calculate_design_conditions(con, steps=[float(np.mean(con.coordinates[:, 1]))], swap_axis=True))
    virocon.plot_2D_contour(con, sample=smp[:100], design_conditions=True)
    virocon.plot_2D_isodensity(model, smp[:200], n_grid_steps=15)
    virocon.plot_dependence_functions(model)
    tmp = tempfile.mkdtemp(prefix="vmon_c19_")
    try:
        virocon.save_contour_coordinates(con, os.path.join(tmp, "c"))
    finally:
        shutil.rmtree(tmp, ignore_errors=True)


def _getter_model(name):
    import virocon

    out = getattr(virocon, name)()
    dd, fd = out[0], out[1]
    model = virocon.GlobalHierarchicalModel(dd)
    return model, fd, out


def _data_for(name, rng, n=3000):
    if "V_Hs" in name:
        v = rng.weibull(2.0, n) * 9 + 0.05
        hs = np.abs(0.4 + 0.02 * v**1.9 + 0.25 * (0.3 + 0.05 * v) * rng.standard_normal(n)) + 0.05
        return np.c_[v, hs]
    if "_S" in name:
        hs = rng.weibull(1.4, n) * 1.8 + 0.1
        s = np.clip(0.01 + 0.04 * (1 - np.exp(-0.6 * hs)) * (0.5 + rng.weibull(3.0, n)), 1e-3, 0.09)
        return np.c_[hs, s]
    if "Hs_U" in name:
        hs = rng.weibull(1.4, n) * 1.8 + 0.1
        u = np.abs(2 + 3.0 * hs**0.8 + (1.2 + 0.2 * hs) * rng.standard_normal(n)) + 0.1
        return np.c_[hs, u]
    hs = rng.weibull(1.4, n) * 1.8 + 0.1
    tz = np.exp(1.2 + 0.35 * np.sqrt(hs) + (0.07 + 0.12 * np.exp(-0.3 * hs)) * rng.standard_normal(n))
    return np.c_[hs, tz]


class _ReportedFitFailure(Exception):
    pass


def _fit(model, fd, data):
    with M.quiet():
        try:
            model.fit(data, copy.deepcopy(fd) if fd is not None else None)
        except RuntimeError as e:
            if "Failed to fit dependence function" in str(e) or "too few intervals" in str(e):
                raise _ReportedFitFailure(str(e)[:100]) from e  # documented, reported failure on the synthetic data
            raise


def _params(model):
    out = []
    for d in model.distributions:
        if hasattr(d, "conditional_parameters"):
            out.append({k: dict(v.parameters) for k, v in d.conditional_parameters.items()})
            out.append([dict(p) for p in getattr(d, "parameters_per_interval", [])])
        else:
            out.append(dict(d.parameters))
    return snap(out)


def _history(case, ctx):
    from virocon import IFORMContour

    rng = np.random.default_rng(case["sub"])
    gA, gB = case["getterA"], case["getterB"]
    ctx.cls("getterA", gA)
    ctx.cls("getterB", gB)
    dataA = _data_for(gA, rng)
    dataB = _data_for(gB, rng)
    # reference: models fitted from fresh descriptions BEFORE anything else happened in this history
    A, fdA, _ = _getter_model(gA)
    _fit(A, fdA, dataA)
    B0, fdB, _ = _getter_model(gB)
    _fit(B0, fdB, dataB)
    refB = _params(B0)
    refA = _params(A)
    pts = dataA[:25].copy()
    snapA = snap(A)
    valA = np.asarray(A.pdf(pts)).copy()
    n_fits = 0
    for op in case["seq"]:
        if op == "evalA":
            v = np.asarray(A.pdf(pts))
            ctx.check("c19.history-evaluation-stable", _equal(v, valA), "evaluating model A gives different values after other models were fitted / created", sequence=case["seq"], getterA=gA, getterB=gB)
        elif op == "contourA":
            with M.quiet():
                IFORMContour(A, 0.01, n_points=16)
        elif op == "fitB":
            Bn, fdBn, _ = _getter_model(gB)
            _fit(Bn, fdBn, dataB)
            n_fits += 1
            ctx.check("c19.history-independent", _params(Bn) == refB, "a model fitted from a fresh description depends on what was fitted before it", sequence=case["seq"], getter=gB, fit_number=n_fits, diff=_diff(refB, _params(Bn)))
        elif op == "recreate":
            _getter_model(gA)
        elif op == "fitA2":
            A2, fdA2, _ = _getter_model(gA)
            _fit(A2, fdA2, dataA)
            n_fits += 1
            ctx.check("c19.history-independent", _params(A2) == refA, "a second model built from a fresh description of the same getter does not reproduce the first fit", sequence=case["seq"], getter=gA, diff=_diff(refA, _params(A2)))
        after = snap(A)
        ctx.check("c19.history-model-unchanged", not changed(snapA, after), f"model A changed state during '{op}' on another object", sequence=case["seq"], op=op, diff=_diff(snapA, after) if after != snapA else None)
    ctx.nontrivial = n_fits > 0
    ctx.sample = {"kind": "history", "getterA": gA, "getterB": gB, "sequence": case["seq"]}


def _idgraph(case, ctx):
    import virocon

    g = case["getter"]
    ctx.cls("getter", g)
    a = getattr(virocon, g)()
    b = getattr(virocon, g)()
    na, nb = mutable_nodes(a), mutable_nodes(b)
    shared = set(na) & set(nb)
    ctx.check("c19.no-shared-mutable-node", not shared, f"two calls of {g} return objects that share mutable state", shared=[na[i] for i in list(shared)[:5]], n_nodes=len(na))
    # and models built from them
    ma, mb = virocon.GlobalHierarchicalModel(a[0]), virocon.GlobalHierarchicalModel(b[0])
    na, nb = mutable_nodes(ma), mutable_nodes(mb)
    shared = set(na) & set(nb)
    ctx.check("c19.no-shared-mutable-node", not shared, f"two models built from separate {g}() calls share mutable state", shared=[na[i] for i in list(shared)[:5]], n_nodes=len(na))
    # behavioural: fitting one leaves the other's complete state (class-level containers included) unchanged
    rng = np.random.default_rng(3)
    before = snap(mb)
    _fit(ma, a[1], _data_for(g, rng))
    after = snap(mb)
    ctx.check("c19.fit-leaves-other-model-unchanged", not changed(before, after), f"fitting a model from {g}() changes another model built from a fresh description", diff=_diff(before, after) if before != after else None)
    ctx.nontrivial = True
    ctx.sample = {"kind": "idgraph", "getter": g, "mutable_nodes": len(na)}


def _template(case, ctx):
    rng = np.random.default_rng(case["sub"])
    from virocon import GlobalHierarchicalModel, DependenceFunction, NumberOfIntervalsSlicer

    fam = ["lognormal", "normal", "weibull", "expweib"][int(rng.integers(4))]
    cls = S.classes()[fam]
    start = S.draw_params(rng, fam, S.RANGE)
    template = cls(**start)

    def _lin(x, a=1.0, b=0.1):
        return a + b * x

    deps = {k: DependenceFunction(_lin) for k in start}
    dd = [{"distribution": S.classes()["weibull"](), "intervals": NumberOfIntervalsSlicer(4, min_n_points=10)}, {"distribution": template, "conditional_on": 0, "parameters": deps}]
    model = GlobalHierarchicalModel(dd)
    x0 = rng.weibull(1.5, 1500) * 2 + 0.1
    x1 = np.abs(1 + 0.5 * x0 + 0.3 * rng.standard_normal(1500)) + 0.05
    before = snap(template)
    try:
        _fit(model, None, np.c_[x0, x1])
    except Exception as e:  # noqa: BLE001 - a failed fit of this synthetic model is not the subject here
        ctx.count("c19.template-fit-failed")
        ctx.notes["fit_error"] = str(e)[:100]
    after = snap(template)
    ctx.check("c19.template-unchanged", not changed(before, after) and dict(template.parameters) == {k: v for k, v in start.items()}, "ConditionalDistribution.fit altered its template's own parameters", family=fam, start=start, now=dict(template.parameters))
    per = getattr(model.distributions[1], "distributions_per_interval", [])
    ctx.check("c19.interval-distributions-are-copies", all(d is not template for d in per) and len({id(d) for d in per}) == len(per), "per-interval distributions are not independent copies of the template")
    ctx.nontrivial = len(per) > 0
    ctx.sample = {"kind": "template", "family": fam, "start": start, "n_intervals": len(per)}
