"""C09 - joint fitting is order-invariant and fits each interval to exactly its own data."""
import copy
import math
import warnings

import numpy as np

from .. import monitors as M
from .. import slicemon
from .. import specs as S

ID = "C09"
LEVEL = "exploration"
RULE = (
    "case = (2-D or 3-D data matrix of 300..20000 rows generated from a reference model, optionally rounded to 0.1/0.01 (ties, values on interval edges), "
    "row order sorted / shuffled / reversed / time-like blocks; slicer: WidthOfIntervalSlicer | NumberOfIntervalsSlicer | PointsPerIntervalSlicer with random options; "
    "fit options per dimension: MLE or (w)lsq with weights for exponentiated-Weibull dimensions; history: first fit, re-fit on permuted rows, re-fit on OTHER data "
    "compared with a fresh model). Monitors on slice_, Distribution.fit and DependenceFunction.fit record every call inside GlobalHierarchicalModel.fit; the oracle "
    "recomputes interval membership from the reported boundaries, re-fits a deep copy of the template to exactly those rows, compares dependence-fit inputs with "
    "(references, estimates), checks that each call received its own dimension's (method, weights) and compares fits across row orders. Non-trivial = at least 3 "
    "intervals and unsorted or tied data; distinct = (data seed, slicer configuration, fit options, order, history)."
    ' Also: explicit value ranges for the width and number slicers, every slice_ call inside a fit judged by the slicer oracle, histories crossed with slicers, conditional templates whose first parameter is fixed.'
)
ASSUMPTIONS = [
    "order-invariance tolerance: closed-form estimators 1e-9, optimiser-based (Nelder-Mead) estimators 1e-3 relative on estimates; dependence functions compared by value (rel 1e-3) over the conditioning range",
    "stand-alone re-fit of a deep copy of the template, same method and weights, must agree to 1e-6 relative",
]
REQUIRED = ["c09.interval-data", "c09.interval-estimates", "c09.dependence-fit-inputs", "c09.options-per-dimension", "c09.order-invariant", "c09.refit-equals-fresh"]
CASE_TIMEOUT_S = 900

REC = {"slice": [], "fit": [], "depfit": []}


def _post_slice(call):
    if M.current() is None or call.exc is not None:
        return
    REC["slice"].append({"slicer": call.self, "data": np.array(call.args[0], float, copy=True), "result": call.result})


def _pre_dfit(call):
    return {"before": copy.deepcopy(call.self)}


def _post_dfit(call):
    if M.current() is None:
        return
    a = list(call.args)
    REC["fit"].append(
        {
            "obj": call.self,
            "before": call.pre["before"],
            "data": np.array(a[0], float, copy=True),
            "method": a[1] if len(a) > 1 else call.kwargs.get("method", "mle"),
            "weights": a[2] if len(a) > 2 else call.kwargs.get("weights"),
            "after": dict(call.self.parameters) if call.exc is None else None,
            "exc": call.exc,
        }
    )


def _post_depfit(call):
    if M.current() is None:
        return
    REC["depfit"].append({"dep": call.self, "x": np.array(call.args[0], float, copy=True), "y": np.array(call.args[1], float, copy=True)})


_DONE = [False]


def install():
    if _DONE[0]:
        return
    _DONE[0] = True
    from virocon import DependenceFunction
    from virocon.distributions import Distribution
    from virocon.intervals import IntervalSlicer

    M.wrap(IntervalSlicer, "slice_", post=_post_slice, tag="c09")
    # "the observations whose conditioning value falls in the interval": the intervals are the slicer's documented ones,
    # so every slice_ call made inside a fit is also judged by the slicer oracle of C10 (configured range, exactly one)
    slicemon.install()
    M.wrap(Distribution, "fit", pre=_pre_dfit, post=_post_dfit, tag="c09")
    M.wrap(DependenceFunction, "fit", post=_post_depfit, tag="c09", outermost_only=False)


def gen_cases(tier, seed):
    rng = np.random.default_rng([seed, 9])
    n = 48 if tier == "quick" else 800
    cases = []
    for i in range(n):
        cases.append(
            {
                "n_dim": 2 if i % 3 else 3,
                "rows": int(np.exp(rng.uniform(math.log(300), math.log(20000 if tier == "thorough" else 6000)))),
                "round": [None, 1, 2, 1][int(rng.integers(4))],
                "order": str(rng.choice(["shuffled", "sorted", "reversed", "blocks"])),
                "slicer": ["woi", "noi", "ppi"][i % 3],
                "dim0": str(rng.choice(["weibull", "expweib-wlsq", "expweib-lsq-array", "lognormal"])),
                "history": ["first", "refit-permuted", "refit-other"][(i // 3 + int(rng.integers(1))) % 3],  # every slicer with every history
                "template": ["none", "first-fixed", "none", "first-fixed", "chained-mu-on-sigma"][(i // 9) % 5],  # ... with every conditional template
                "sub": int(rng.integers(1 << 31)),
                "cost": 2,
            }
        )
    return cases


def _power3(x, a=1.0, b=0.5, c=0.5):
    return a + b * x**c


def _mu_chained(x, a, b, s_of_x):
    return a + b * np.sqrt(x) + 10.0 * s_of_x(x)  # (a strong coupling: a stale conditioner moves mu visibly)


def _exp3(x, a=0.1, b=0.3, c=-0.2):
    return a + b * np.exp(c * x)


def _lin(x, a=1.0, b=0.5):
    return a + b * x


def _data(case, rng, n):
    hs = rng.weibull(1.5, n) * 2.2 + 0.05
    first_fixed = case.get("template") == "first-fixed"  # the conditional templates fix their first parameter: the data agree with it
    mu = 0.9 + 0.55 * hs**0.45 if not first_fixed else np.full(n, 1.6)
    sig = 0.06 + 0.2 * np.exp(-0.3 * hs)
    tz = np.exp(mu + sig * rng.standard_normal(n))
    cols = [hs, tz]
    if case["n_dim"] == 3:
        cols.append((3.0 + 1.5 * hs if not first_fixed else 6.0) + (0.8 + 0.1 * hs) * rng.standard_normal(n))
    X = np.c_[tuple(cols)]
    if case["round"] is not None:
        X = np.round(X, case["round"])
        X[:, 0] = np.maximum(X[:, 0], 10.0 ** -case["round"])
        X[:, 1] = np.maximum(X[:, 1], 10.0 ** -case["round"])
    return X


def _order(X, order, rng):
    if order == "sorted":
        return X[np.argsort(X[:, 0], kind="stable")]
    if order == "reversed":
        return X[np.argsort(X[:, 0], kind="stable")[::-1]]
    if order == "blocks":
        k = len(X) // 2
        return np.vstack([X[:k][np.argsort(X[:k, 0])], X[k:]])
    return X[rng.permutation(len(X))]


def _make_slicer(case, rng, n):
    from virocon import NumberOfIntervalsSlicer, PointsPerIntervalSlicer, WidthOfIntervalSlicer

    no_range = case["history"] == "refit-other" and int(case["sub"]) % 3 != 0  # data-derived ranges meet a re-fit on other data

    mnp = int(max(20, n // 60))
    if case["slicer"] == "woi":
        return lambda: slicemon.remember_configuration(WidthOfIntervalSlicer(width=float(cfg["w"]), reference=cfg["ref"], right_open=cfg["ro"], value_range=cfg["vr"], min_n_points=mnp, min_n_intervals=3)), (cfg := {"w": rng.choice([0.5, 0.3, 0.7, 1.0]), "ref": str(rng.choice(["center", "left", "right"])), "ro": bool(rng.integers(2)), "vr": [None, None, (1.0, 3.0), (0.5, None), (None, 3.5), (0.6, 2.8)][0 if no_range else int(rng.integers(6))]})
    if case["slicer"] == "noi":
        return lambda: slicemon.remember_configuration(NumberOfIntervalsSlicer(n_intervals=int(cfg["k"]), reference=cfg["ref"], include_max=cfg["im"], value_range=cfg["vr"], min_n_points=mnp, min_n_intervals=3)), (cfg := {"k": rng.choice([6, 10, 15]), "ref": str(rng.choice(["center", "left", "right"])), "im": bool(rng.integers(2)), "vr": [None, None, (0.5, 3.0), (0.0, 3.5)][0 if no_range else int(rng.integers(4))]})
    return lambda: PointsPerIntervalSlicer(n_points=int(cfg["np"]), last_full=cfg["lf"], min_n_intervals=3), (cfg := {"np": max(40, n // int(rng.choice([5, 8, 12]))), "lf": bool(rng.integers(2))})


def _build(case, mk_slicer, warr):
    from virocon import DependenceFunction, ExponentiatedWeibullDistribution, GlobalHierarchicalModel, LogNormalDistribution, NormalDistribution, WeibullDistribution

    d0 = case["dim0"]
    if d0 == "weibull":
        dist0, fd0 = WeibullDistribution(f_gamma=0), {"method": "mle"}
    elif d0 == "lognormal":
        dist0, fd0 = LogNormalDistribution(), {"method": "mle"}
    elif d0 == "expweib-wlsq":
        dist0, fd0 = ExponentiatedWeibullDistribution(), {"method": ["wlsq", "WLSQ", "Wlsq"][int(case["sub"]) % 3], "weights": "quadratic"}  # (method names are case-insensitive)
    else:
        dist0, fd0 = ExponentiatedWeibullDistribution(f_delta=1.2), {"method": "lsq", "weights": None}
    bounds3 = [(0, None), (0, None), (None, None)]
    # which parameters of a conditional template are fixed: none, the FIRST of the family's parameter order, the last
    fixed_kind = "first-fixed" if case.get("template") == "first-fixed" else "none"
    if case.get("template") == "chained-mu-on-sigma":
        # a chained pair: mu takes the sigma dependence function as a parameter (and precedes it in the parameter order)
        sig_dep = DependenceFunction(_exp3, bounds3)
        d1 = {"distribution": LogNormalDistribution(), "conditional_on": 0, "intervals": mk_slicer(), "parameters": {"mu": DependenceFunction(_mu_chained, s_of_x=sig_dep), "sigma": sig_dep}}
    elif fixed_kind == "first-fixed":
        d1 = {"distribution": LogNormalDistribution(f_mu=1.6), "conditional_on": 0, "intervals": mk_slicer(), "parameters": {"sigma": DependenceFunction(_exp3, bounds3)}}
    else:
        d1 = {"distribution": LogNormalDistribution(), "conditional_on": 0, "intervals": mk_slicer(), "parameters": {"mu": DependenceFunction(_power3, bounds3), "sigma": DependenceFunction(_exp3, bounds3)}}
    descs = [{"distribution": dist0, "intervals": mk_slicer()}, d1]
    fds = [fd0, {"method": "mle"}]
    if case["n_dim"] == 3:
        if fixed_kind == "first-fixed":
            descs.append({"distribution": NormalDistribution(f_mu=6.0), "conditional_on": 0, "parameters": {"sigma": DependenceFunction(_lin, [(0, None), (0, None)])}})
        else:
            descs.append({"distribution": NormalDistribution(), "conditional_on": 0, "parameters": {"mu": DependenceFunction(_lin), "sigma": DependenceFunction(_lin, [(0, None), (0, None)])}})
        fds.append(None)
    return GlobalHierarchicalModel(descs), fds


def _summary(model, grid, X=None):
    out = {"marg": dict(model.distributions[0].parameters), "dims": []}
    for i, d in enumerate(model.distributions):
        if hasattr(d, "conditional_parameters"):
            cond_sorted, kind = None, None
            if X is not None:
                slicer = model.interval_slicers[model.conditional_on[i]]
                kind = slicemon.kind_of(slicer)
                with M.quiet():
                    try:
                        masks, _, _ = slicer.slice_(X[:, model.conditional_on[i]])
                        cond_sorted = [np.sort(X[np.asarray(m, bool), model.conditional_on[i]]) for m in masks]
                    except Exception:  # noqa: BLE001
                        cond_sorted = None
            out["dims"].append(
                {
                    "cond_sorted": cond_sorted,
                    "slicer_kind": kind,
                    "per_interval": [dict(p) for p in d.parameters_per_interval],
                    "cond_values": np.asarray(d.conditioning_values, float),
                    "bounds": [tuple(b) for b in d.conditioning_interval_boundaries],
                    "dep_values": {k: np.asarray(v(grid), float) for k, v in d.conditional_parameters.items()},
                    "n_data": [len(x) for x in d.data_intervals],
                }
            )
    return out


def _rel(a, b):
    a, b = float(a), float(b)
    return abs(a - b) / max(abs(a), abs(b), 1e-300)


def _compare(ctx, name, s1, s2, what, info, tol_est, tol_dep):
    ok, why = True, None
    for k in s1["marg"]:
        if _rel(s1["marg"][k], s2["marg"][k]) > tol_est:
            ok, why = False, f"marginal {k}: {s1['marg'][k]} vs {s2['marg'][k]}"
    for d1, d2 in zip(s1["dims"], s2["dims"]):
        if d1["n_data"] != d2["n_data"]:
            ok, why = False, f"interval sizes {d1['n_data']} vs {d2['n_data']}"
            break
        if len(d1["cond_values"]) != len(d2["cond_values"]) or np.any(np.abs(d1["cond_values"] - d2["cond_values"]) > 1e-9 * np.maximum(1, np.abs(d1["cond_values"]))):
            ok, why = False, "interval reference values differ"
            break
        for p1, p2 in zip(d1["per_interval"], d2["per_interval"]):
            for k in p1:
                if _rel(p1[k], p2[k]) > 1e-7:
                    ok, why = False, f"per-interval {k}: {p1[k]} vs {p2[k]}"
        for k in d1["dep_values"]:
            a, b = d1["dep_values"][k], d2["dep_values"][k]
            if np.any(np.abs(a - b) > tol_dep * np.maximum(np.abs(b), 1e-6)):
                ok, why = False, f"dependence function {k} differs: {a[:3]} vs {b[:3]}"
    mech = None
    if not ok:
        mech = _ppi_tie_mechanism(s1, s2)
    ctx.check(name, ok, what + (f" ({why})" if why else ""), mech, **info)


def _ppi_tie_mechanism(s1, s2):
    """Predicate of the known finding: PointsPerIntervalSlicer, the two fits have IDENTICAL conditioning values in
    every interval (same partition of the conditioning variable), and a tie straddles a chunk cut (max of an interval
    equals the min of the next): only WHICH of the tied rows went where differs - that depends on the row order."""
    hit = False
    for d1, d2 in zip(s1["dims"], s2["dims"]):
        if d1.get("slicer_kind") != "PointsPerIntervalSlicer":
            continue
        a, b = d1.get("cond_sorted"), d2.get("cond_sorted")
        if a is None or b is None or len(a) != len(b):
            return None
        if not all(x.shape == y.shape and np.array_equal(x, y) for x, y in zip(a, b)):
            return None
        if any(len(a[k]) and len(a[k + 1]) and a[k][-1] == a[k + 1][0] for k in range(len(a) - 1)):
            hit = True
    return "ppi-tied-values-split-across-intervals" if hit else None


def run_case(case, ctx):
    rng = np.random.default_rng(case["sub"])
    n = case["rows"]
    X = _order(_data(case, rng, n), case["order"], rng)
    mk_slicer, cfg = _make_slicer(case, rng, n)
    ctx.cls("slicer", case["slicer"])
    ctx.cls("order", case["order"])
    ctx.cls("round", case["round"])
    ctx.cls("dim0", case["dim0"])
    ctx.cls("history", case["history"])
    ctx.cls("n_dim", case["n_dim"])
    ctx.cls("conditional-template", case.get("template", "none"))
    ctx.sig = str({k: v for k, v in case.items() if k not in ("id", "cost")})
    info = {"slicer": case["slicer"], "slicer_cfg": {k: (v if not hasattr(v, "item") else v.item()) for k, v in cfg.items()}, "rows": n, "order": case["order"], "round": case["round"], "dim0": case["dim0"]}
    grid = np.linspace(0.3, float(np.quantile(X[:, 0], 0.98)), 9)
    closed = case["dim0"] in ("lognormal",)
    tol_est = 1e-9 if closed else 1e-3
    with warnings.catch_warnings():
        warnings.simplefilter("ignore")
        model, fds = _build(case, mk_slicer, None)
        templates = [copy.deepcopy(d.distribution) if hasattr(d, "distribution") else None for d in model.distributions]
        for k in REC:
            REC[k].clear()
        try:
            model.fit(X, copy.deepcopy(fds))
        except RuntimeError as e:
            if "too few intervals" in str(e) or "Failed to fit dependence function" in str(e):
                # documented, reported failures (no result): not the subject of this property
                ctx.count("c09.reported-fit-failure-skipped")
                ctx.sample = {"skipped": str(e)[:60], **info}
                return
            raise
        _judge_fit(ctx, model, X, fds, templates, info)
        s1 = _summary(model, grid, X)
        ctx.nontrivial = all(len(d["per_interval"]) >= 3 for d in s1["dims"]) and (case["order"] != "sorted" or case["round"] is not None)
        ctx.sample = {**info, "n_intervals": [len(d["per_interval"]) for d in s1["dims"]], "history": case["history"]}
        # ---- order invariance: a fresh model on permuted rows -----------------
        with M.quiet():
            m2, fds2 = _build(case, mk_slicer, None)
            perm = rng.permutation(n)
            try:
                m2.fit(X[perm], copy.deepcopy(fds2))
            except RuntimeError as e:
                if "Failed to fit dependence function" in str(e):
                    ctx.count("c09.reported-fit-failure-skipped")
                    return
                raise
        _compare(ctx, "c09.order-invariant", s1, _summary(m2, grid, X[perm]), "fitting the same rows in another order gives a different model", info, tol_est, 1e-3)
        # ---- history ------------------------------------------------------------
        if case["history"] == "refit-permuted":
            for k in REC:
                REC[k].clear()
            Xp = X[rng.permutation(n)]
            try:
                model.fit(Xp, copy.deepcopy(fds))
            except RuntimeError as e:
                if "Failed to fit dependence function" in str(e):
                    ctx.count("c09.reported-fit-failure-skipped")
                    return
                raise
            _judge_fit(ctx, model, Xp, fds, templates, info)
            _compare(ctx, "c09.refit-equals-fresh", s1, _summary(model, grid, Xp), "re-fitting an already fitted model on the same rows (permuted) changes it", info, tol_est, 1e-3)
        elif case["history"] == "refit-other":
            Y = _order(_data(case, np.random.default_rng(case["sub"] + 7), max(300, int(n * 0.7))), "shuffled", rng)
            Y[:, 0] *= 1.35  # another range of the conditioning variable
            for k in REC:
                REC[k].clear()
            try:
                model.fit(Y, copy.deepcopy(fds))
                _judge_fit(ctx, model, Y, fds, templates, info)
                with M.quiet():
                    m3, fds3 = _build(case, mk_slicer, None)
                    m3.fit(Y, copy.deepcopy(fds3))
                g2 = np.linspace(0.3, float(np.quantile(Y[:, 0], 0.98)), 9)
                _compare(ctx, "c09.refit-equals-fresh", _summary(m3, g2, Y), _summary(model, g2, Y), "a re-fitted model differs from a fresh model fitted to the same data", info, max(tol_est, 1e-3), 2e-2)
            except RuntimeError as e:
                if "too few intervals" not in str(e) and "Failed to fit dependence function" not in str(e):
                    raise
                ctx.count("c09.reported-fit-failure-skipped")


def _judge_fit(ctx, model, X, fds, templates, info):
    """Offline checker over the calls recorded during one GlobalHierarchicalModel.fit."""
    fits = list(REC["fit"])
    by_obj = {}
    for f_ in fits:
        by_obj[id(f_["obj"])] = f_  # last fit of each object (independent of the order in which the implementation fits)
    slices = list(REC["slice"])
    deps = list(REC["depfit"])
    si = 0
    for i, dist in enumerate(model.distributions):
        fd = fds[i] if fds[i] is not None else {"method": "mle", "weights": None}
        want_m, want_w = fd["method"], fd.get("weights")
        cidx = model.conditional_on[i]
        if cidx is None:
            f = by_obj.get(id(dist))
            if f is None:
                ctx.inconcl("fit call of an unconditional dimension not observed")
                return
            okopt = f["method"] == want_m and _same_w(f["weights"], want_w)
            ctx.check("c09.options-per-dimension", okopt, f"dimension {i}: fit options (method, weights) are not the ones declared for that dimension", got=[f["method"], _wdesc(f["weights"])], want=[want_m, _wdesc(want_w)], dimension=i, **info)
            ctx.check("c09.marginal-data", f["data"].shape == (len(X),) and np.array_equal(f["data"], X[:, i]), f"dimension {i}: the marginal fit did not receive exactly its own column", dimension=i, **info)
            continue
        # the slice_ call of this dimension, if one was observed for its conditioning column; the verdict on the
        # interval data does not depend on HOW the implementation obtained the intervals, so if no call was observed
        # (e.g. a cached split) the intervals are recomputed with the configured slicer
        sl = None
        for cand in slices:
            if cand["slicer"] is model.interval_slicers[cidx] and np.array_equal(cand["data"], X[:, cidx]):
                sl = cand
        if sl is not None:
            ctx.count("c09.slice-call-observed")
        slicer = model.interval_slicers[cidx]
        if sl is not None:
            masks, refs, bnds = sl["result"]
        else:
            ctx.count("c09.slice-call-not-observed-recomputed")
            with M.quiet():
                masks, refs, bnds = slicer.slice_(X[:, cidx])
        kind = slicemon.kind_of(slicer)
        cond = X[:, cidx]
        n_int = len(bnds)
        if len(dist.data_intervals) != n_int or len(dist.parameters_per_interval) != n_int:
            ctx.check("c09.interval-data", False, f"dimension {i}: number of fitted intervals differs from the number of intervals reported by the slicer", got=len(dist.parameters_per_interval), want=n_int, dimension=i, **info)
            return
        ok_data, ok_est, ok_opt, wit = True, True, True, None
        top = None
        if kind == "NumberOfIntervalsSlicer":
            top = slicer.value_range[1] if slicer.value_range is not None else np.max(cond)
        for k, (lo, hi) in enumerate(bnds):
            # include_max concerns the interval that ends at the top of the value range (it may have been dropped)
            is_last = (hi == top) if top is not None else (k == n_int - 1)
            member = np.array([slicemon._member_ok(kind, slicer, v, lo, hi, is_last) for v in cond], bool)
            # exactly-one (C10) is not re-judged here: rows are attributed to the FIRST interval whose boundaries contain them
            rows = X[member, i]
            got = np.asarray(dist.data_intervals[k], float)
            if kind == "PointsPerIntervalSlicer":
                # value-based membership is ambiguous under ties at the cut: use the mask, but require it to respect the boundaries
                rows = X[np.asarray(masks[k], bool), i]
                if not np.all(member[np.asarray(masks[k], bool)]):
                    ok_data, wit = False, {"interval": k, "why": "member outside the reported boundaries"}
            if got.shape != rows.shape or not np.array_equal(np.sort(got), np.sort(rows)):
                ok_data = False
                wit = wit or {"interval": k, "boundaries": [float(lo), float(hi)], "n_got": int(got.size), "n_rows_in_interval": int(rows.size)}
            f = by_obj.get(id(dist.distributions_per_interval[k])) if k < len(getattr(dist, "distributions_per_interval", [])) else None
            if f is None:
                ctx.inconcl("per-interval fit call not observed")
                return
            if not (f["method"] == want_m and _same_w(f["weights"], want_w)):
                ok_opt = False
            if f["exc"] is not None:
                continue
            # stand-alone fit of a deep copy of the template to exactly those rows
            alone = copy.deepcopy(templates[i])
            with M.quiet():
                try:
                    alone.fit(rows, want_m, want_w)
                except Exception as e:  # noqa: BLE001
                    ctx.count("c09.standalone-fit-failed")
                    continue
            est = dist.parameters_per_interval[k]
            for name, v in alone.parameters.items():
                if _rel(v, est[name]) > 1e-6:
                    ok_est = False
                    wit = wit or {"interval": k, "parameter": name, "estimate": float(est[name]), "stand_alone": float(v)}
        mech = None
        if not ok_data and kind == "PointsPerIntervalSlicer":
            mech = "ppi-masks-in-sorted-position-space" if slicemon._ppi_sorted_space(slicer, cond, [np.asarray(m) for m in masks]) else None
        ctx.check("c09.interval-data", ok_data, f"dimension {i}: an interval was not fitted to exactly the rows whose conditioning value lies in it", mech, witness=wit, dimension=i, **info)
        ctx.check("c09.interval-estimates", ok_est, f"dimension {i}: a per-interval estimate differs from a stand-alone fit of the template to the interval's rows", mech if not ok_data else None, witness=wit, dimension=i, **info)
        ctx.check("c09.options-per-dimension", ok_opt, f"dimension {i}: per-interval fits did not receive the (method, weights) declared for that dimension", want=[want_m, _wdesc(want_w)], dimension=i, **info)
        # dependence fits: (x, y) == (references, estimates)
        cv = np.asarray(dist.conditioning_values, float)
        ctx.check("c09.references", len(cv) == len(refs) and np.array_equal(cv, np.asarray(refs, float)), f"dimension {i}: conditioning values are not the slicer's interval references", dimension=i, **info)
        okd = True
        for pname, dep in dist.conditional_parameters.items():
            calls = [d for d in deps if d["dep"] is dep]
            y = np.array([p[pname] for p in dist.parameters_per_interval], float)
            if not calls or not (np.array_equal(calls[-1]["x"], cv) and np.array_equal(calls[-1]["y"], y)):
                okd = False
        ctx.check("c09.dependence-fit-inputs", okd, f"dimension {i}: a dependence function was not fitted to (interval reference, per-interval estimate) pairs", dimension=i, **info)


def _same_w(a, b):
    if a is None or b is None or isinstance(a, str) or isinstance(b, str):
        return a is b or a == b
    return np.array_equal(np.asarray(a), np.asarray(b))


def _wdesc(w):
    return w if (w is None or isinstance(w, str)) else "array"
