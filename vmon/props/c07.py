"""C07 - samples follow the model they are drawn from and are reproducible by seed."""
import math

import numpy as np
from scipy import special as sp

from .. import condmon
from .. import monitors as M
from .. import refmodel as R
from .. import specs as S
from .. import stats

ID = "C07"
LEVEL = "exploration"
RULE = (
    "univariate cases: every family x random parameters x n in {1,2,10,1e3,1e5 (1e6 thorough)} x random_state in {None, int (0 included), "
    "Generator}, with stored and explicit (scalar and vector) parameters; joint cases: 2-D/3-D specs over all dependence structures "
    "(incl. scalar-returning constant dependence functions) x n x seeds. Oracle: KS distance to the reference cdf below the DKW bound at "
    "1e-12; Rosenblatt image of joint samples uniform per component, per conditioning bin and jointly (Naaman bound); shape; bitwise "
    "reproducibility for equal seeds / equally seeded Generators; different seeds differ. Non-trivial = n >= 1000 (a statistical "
    "comparison was made); distinct = (family or spec signature, n, seed kind)."
    ' Also: constant dependence functions returning Python float / 0-d array / numpy scalar with every dependent parameter constant; unit-rescaled joint cases; transformed models fresh and after cache use + parameter change.'
)
ASSUMPTIONS = [
    "DKW-Massart and Naaman inequalities at error probability 1e-12 per comparison (number of comparisons is in the evidence)",
    "reference cdfs (refmodel.py); von Mises samples compared modulo 2 pi on (mu-pi, mu+pi]",
]
REQUIRED = ["c07.ks-univariate", "c07.reproducible", "c07.joint-rosenblatt", "c07.shape"]
CASE_TIMEOUT_S = 600
SEEDS = [0, 1, 7, 2**32 - 1, 123456789]


def gen_cases(tier, seed):
    rng = np.random.default_rng([seed, 7])
    cases = []
    reps = 3 if tier == "quick" else 40
    big = [1000, 100000] if tier == "quick" else [1000, 100000, 1000000]
    for fam in S.ALL_FAMS:
        for r in range(reps):
            p = S.draw_params(rng, fam, S.WIDE if r % 2 else S.RANGE)
            n = int(big[r % len(big)])
            cases.append({"kind": "uni", "fam": fam, "params": p, "n": n, "seed": int(SEEDS[r % len(SEEDS)]), "cost": n / 1e5 + 0.2})
        cases.append({"kind": "uni-small", "fam": fam, "params": S.draw_params(rng, fam, S.RANGE)})
    # parameter regions beyond the regular table: very small exponentiated-Weibull delta (mass piled up next to zero),
    # shapes below one, locations far from zero
    prng = np.random.default_rng([seed, 7, 21])
    for dl in (0.03, 0.05, 0.08, 0.15):
        cases.append({"kind": "uni", "fam": "expweib", "params": {"alpha": float(prng.uniform(0.5, 3)), "beta": float(prng.uniform(0.8, 2.5)), "delta": dl}, "n": 200000, "seed": int(SEEDS[int(prng.integers(len(SEEDS)))]), "cost": 3})
    structs = S.all_structures(2) + S.all_structures(3)
    jreps = 4 if tier == "quick" else 60
    for r in range(jreps):
        for st in structs:
            sub = np.random.default_rng(int(rng.integers(1 << 62)))
            spec = S.gen_spec(sub, structure=st)
            n = int([2000, 100000, 20000][r % 3]) if tier == "quick" else int([2000, 100000, 1000000, 20000][r % 4])
            cases.append({"kind": "joint", "spec": spec, "n": n, "seed": int(SEEDS[(r + len(st)) % len(SEEDS)]), "cost": n / 4e4 + 0.3})
    # same-family pairs with seed 0 (streams of equal primitives must not be shared between dimensions)
    for fam in ("expweib", "weibull", "lognormal", "normal"):
        sub = np.random.default_rng(int(rng.integers(1 << 62)))
        spec = S.gen_spec(sub, structure=[None, 0], fams=[fam])
        cases.append({"kind": "joint", "spec": spec, "n": 20000, "seed": 0})
        spec = S.gen_spec(sub, structure=[None, None, 1], fams=[fam])
        cases.append({"kind": "joint", "spec": spec, "n": 20000, "seed": 0})
    # a conditional variable ALL of whose dependence functions are constants, for every type a constant can come back as
    # (Python float, 0-d ndarray, numpy scalar): each row still needs its own draw
    crng = np.random.default_rng([seed, 7, 5])
    for k in (0, 1, 2):
        for fam in ("weibull", "lognormal", "normal", "expweib", "gamma"):
            p1 = S.draw_params(crng, fam, S.RANGE)
            names = list(p1)
            dep = [bool(crng.integers(2)) for _ in names]
            if not any(dep):
                dep[0] = True
            params = {nm: ({"shape": "const_scalar", "coef": [S.const_with_return_type(p1[nm], k)]} if dflag else p1[nm]) for nm, dflag in zip(names, dep)}
            if fam == "weibull":
                params["gamma"] = 0.0 if not isinstance(params["gamma"], dict) else params["gamma"]
            spec = {"dims": [{"fam": "weibull", "params": {"alpha": 2.0, "beta": 1.5, "gamma": 0.0}}, {"fam": fam, "cond": 0, "params": params}]}
            cases.append({"kind": "joint", "spec": spec, "n": 20000, "seed": int(SEEDS[k % len(SEEDS)]), "constant_type": k})
    # transformed models (Hs-steepness -> Hs-Tz): fresh, and after the cached Monte-Carlo sample was used and the base
    # model's parameters changed
    trng = np.random.default_rng([seed, 7, 16])
    for k in range(4 if tier == "quick" else 40):
        cases.append({"kind": "transformed", "variant": ["windmeier", "random", "nonzero", "random"][k % 4], "sub": int(trng.integers(1 << 31)), "seed": int(SEEDS[k % len(SEEDS)]), "cost": 3})
    # units as an input class
    urng = np.random.default_rng([seed, 7, 77])
    kj = 0
    for cse in cases:
        if cse["kind"] == "joint" and "units" not in cse:
            kj += 1
            if kj % 4 == 2:
                cse["units"] = [float(urng.choice([1e-6, 1e-3, 1e2, 1e4])) for _ in cse["spec"]["dims"]]
    return cases


def install():
    condmon.install()


def _cdf_for(fam, p):
    return lambda x: R.cdf(fam, x, **p)


def _ks(fam, p, sample):
    """KS distance to the reference; circular samples are first unwrapped to (mu-pi, mu+pi]."""
    return stats.ks_distance(_wrap_vm(fam, p, sample), _cdf_for(fam, p))


def _wrap_vm(fam, p, x):
    if fam != "vonmises":
        return x
    mu = p["mu"]
    return mu + np.mod(np.asarray(x, float) - mu + math.pi, 2 * math.pi) - math.pi


def _seed_variants(seed):
    return [("int", lambda: seed), ("generator", lambda: np.random.default_rng(seed))]


def _transformed(case, ctx):
    from . import c16

    rng = np.random.default_rng(case["sub"])
    spec = c16.hs_s_spec(rng, case["variant"])
    tm, base = c16.build_transformed(spec)
    ctx.cls("kind", "transformed-model")
    ctx.sig = f"transformed:{case['variant']}:{case['sub']}"
    ctx.nontrivial = True
    n, seed = 20000, case["seed"]
    eps = stats.dkw_eps(n)

    def pit(smp, ref, label):
        smp = np.asarray(smp, float)
        ctx.check("c07.shape", smp.shape == (n, 2), f"transformed model: sample shape {smp.shape}")
        Xb = np.c_[smp[:, 0], c16.s_of(smp[:, 0], smp[:, 1])]
        for i in range(2):
            U = ref.cond_cdf(i, Xb)
            D = stats.ks_distance(U[np.isfinite(U)], lambda t: np.clip(t, 0, 1))
            ctx.check("c07.ks-joint", D <= eps + 1e-6, f"transformed model ({label}): variable {i} of the back-transformed sample does not follow the base model (KS {D:.4g} > {eps:.4g})", ks=D, eps=eps, variant=case["variant"])

    ref = S.RefModel(spec)
    a = tm.draw_sample(n, random_state=seed)
    pit(a, ref, "fresh, seeded")
    ctx.check("c07.reproducible", np.array_equal(a, tm.draw_sample(n, random_state=seed)), "transformed model: same seed, different samples")
    pit(tm.draw_sample(n), ref, "fresh, unseeded")
    # history
    with np.errstate(all="ignore"):
        tm.empirical_cdf(np.asarray(a)[:3])
    dep = base.distributions[1].conditional_parameters["alpha"]
    keys = list(dep.parameters.keys())
    dep.parameters[keys[1]] = float(dep.parameters[keys[1]]) * 1.6
    spec["dims"][1]["params"]["alpha"]["coef"][1] = float(spec["dims"][1]["params"]["alpha"]["coef"][1]) * 1.6
    ref2 = S.RefModel(spec)
    pit(tm.draw_sample(n), ref2, "after the cached sample was used and the parameters changed, unseeded")
    pit(tm.draw_sample(n, random_state=seed), ref2, "after the cached sample was used and the parameters changed, seeded")
    ctx.sample = {"kind": "transformed", "variant": case["variant"], "n": n}


def run_case(case, ctx):
    kind = case["kind"]
    if kind == "transformed":
        return _transformed(case, ctx)
    if kind == "uni":
        _uni(case, ctx)
    elif kind == "uni-small":
        _uni_small(case, ctx)
    else:
        _joint(case, ctx)


def _uni(case, ctx):
    fam, p, n, seed = case["fam"], case["params"], case["n"], case["seed"]
    ctx.cls("family", fam)
    ctx.cls("n", n)
    d = S.classes()[fam](**p)
    default = S.classes()[fam]()
    eps = stats.dkw_eps(n)
    ctx.sig = f"uni:{fam}:{n}:{seed}:{[round(v, 5) for v in p.values()]}"
    ctx.nontrivial = n >= 1000
    cdf = _cdf_for(fam, p)
    s1 = np.asarray(d.draw_sample(n, random_state=seed))
    ctx.check("c07.shape", s1.shape == (n,), f"{fam}.draw_sample({n}) has shape {s1.shape}", family=fam)
    D = _ks(fam, p, s1)
    ctx.check("c07.ks-univariate", D <= eps, f"{fam}: sample does not follow the distribution (KS {D:.4g} > DKW {eps:.4g})", family=fam, params=p, n=n, ks=D, eps=eps, seed=seed)
    ctx.sample = {"family": fam, "params": p, "n": n, "seed": seed, "ks": D, "dkw_eps": eps}
    # explicit parameters on a default instance
    s2 = np.asarray(default.draw_sample(n, **p, random_state=seed))
    D2 = _ks(fam, p, s2)
    ctx.check("c07.ks-univariate", D2 <= eps, f"{fam}: sample with explicit parameters does not follow them (KS {D2:.4g})", family=fam, params=p, n=n, ks=D2, eps=eps, explicit=True)
    ctx.check("c07.explicit-eq-instance", np.array_equal(s1, s2), f"{fam}: seeded sample with explicit parameters differs from the instance's", family=fam, params=p)
    # unseeded
    s0 = np.asarray(d.draw_sample(min(n, 100000)))
    D0 = _ks(fam, p, s0)
    e0 = stats.dkw_eps(s0.size)
    ctx.check("c07.ks-univariate", D0 <= e0, f"{fam}: unseeded sample does not follow the distribution (KS {D0:.4g})", family=fam, params=p, ks=D0, eps=e0)
    # reproducibility
    m = min(n, 20000)
    a = np.asarray(d.draw_sample(m, random_state=seed))
    b = np.asarray(d.draw_sample(m, random_state=seed))
    ctx.check("c07.reproducible", np.array_equal(a, b), f"{fam}: same integer seed gives different samples", family=fam, seed=seed)
    ga = np.asarray(d.draw_sample(m, random_state=np.random.default_rng(seed)))
    gb = np.asarray(d.draw_sample(m, random_state=np.random.default_rng(seed)))
    ctx.check("c07.reproducible", np.array_equal(ga, gb), f"{fam}: identically seeded Generators give different samples", family=fam, seed=seed)
    c_ = np.asarray(d.draw_sample(m, random_state=(seed + 1) % 2**32))  # (stays a valid seed for seed = 2**32 - 1)
    ctx.check("c07.seeds-differ", not np.array_equal(a, c_), f"{fam}: different seeds give identical samples", family=fam)
    # vector parameters -> (n, len) draws, column j follows parameter j
    names = R.PARAMS[fam]
    k = 3
    pv = {nm: np.array([p[nm]] * k, float) for nm in names}
    vary = names[0]
    other = S.draw_params(np.random.default_rng(seed + 5), fam, S.RANGE)
    pv[vary] = np.array([p[vary], other[vary], p[vary]], float)
    rows = 20000
    sv = np.asarray(default.draw_sample(rows, **pv, random_state=seed))
    ctx.check("c07.shape", sv.shape == (rows, k), f"{fam}.draw_sample(n, vector parameters) has shape {sv.shape}, expected {(rows, k)}", family=fam)
    if sv.shape == (rows, k):
        ev = stats.dkw_eps(rows)
        for j in range(k):
            pj = {nm: float(pv[nm][j]) for nm in names}
            if not R.admissible(fam, pj):
                continue
            Dj = _ks(fam, pj, sv[:, j])
            ctx.check("c07.ks-vector-parameters", Dj <= ev, f"{fam}: column {j} of a vector-parameter draw does not follow parameter set {j} (KS {Dj:.4g})", family=fam, params=pj, ks=Dj, eps=ev)


def _uni_small(case, ctx):
    fam, p = case["fam"], case["params"]
    ctx.cls("family", fam)
    ctx.sig = f"uni-small:{fam}"
    d = S.classes()[fam](**p)
    for n in (1, 2, 10):
        for seed in (0, 3):
            a = np.asarray(d.draw_sample(n, random_state=seed))
            b = np.asarray(d.draw_sample(n, random_state=seed))
            ctx.check("c07.shape", a.shape == (n,), f"{fam}.draw_sample({n}) has shape {a.shape}", family=fam)
            ctx.check("c07.reproducible", np.array_equal(a, b), f"{fam}: same seed, different small samples", family=fam, n=n)
            ctx.check("c07.finite", bool(np.all(np.isfinite(a))), f"{fam}: non-finite sample values", family=fam)
    ctx.sample = {"family": fam, "params": p, "sizes": [1, 2, 10]}


def _joint(case, ctx):
    spec, n, seed = case["spec"], case["n"], case["seed"]
    if case.get("units"):
        scaled = S.rescale_spec(spec, case["units"])
        if scaled is not None:
            spec = scaled
            ctx.cls("units", "rescaled")
    model = S.build_virocon(spec)
    ref = S.RefModel(spec)
    d = model.n_dim
    ctx.cls("structure", ref.cond)
    ctx.cls("n", n)
    ctx.cls("seed", seed)
    for dd in spec["dims"]:
        ctx.cls("family:" + dd["fam"], True)
    ctx.sig = f"joint:{S.spec_signature(spec)}:{n}:{seed}"
    ctx.nontrivial = n >= 1000
    X = np.asarray(model.draw_sample(n, random_state=seed))
    ctx.check("c07.shape", X.shape == (n, d), f"joint draw_sample({n}) has shape {X.shape}", spec=spec)
    if X.shape != (n, d):
        return
    if not np.all(np.isfinite(X)):
        ctx.check("c07.finite", False, "joint sample contains non-finite values", spec=spec)
        return
    # Rosenblatt image, as probabilities.  A circular variable is unwrapped to (mu-pi, mu+pi] for ITS OWN cdf only;
    # as a conditioning value the raw sampled number is used - that is what the sampler conditioned on.
    P = np.empty_like(X)
    for i, dd in enumerate(spec["dims"]):
        Xi = X.copy()
        if dd["fam"] == "vonmises":
            pi_ = ref.params_at(i, None if ref.cond[i] is None else X[:, ref.cond[i]])
            mu = np.asarray(pi_["mu"], float)
            Xi[:, i] = mu + np.mod(X[:, i] - mu + math.pi, 2 * math.pi) - math.pi
        P[:, i] = ref.cond_cdf(i, Xi)
    eps = stats.dkw_eps(n)
    worst = None
    for i in range(d):
        Di = stats.ks_distance_u(P[:, i])
        mech = None
        if Di > eps:
            mech = _scalar_dep_mechanism(spec, i, X)
        ctx.check(
            "c07.joint-rosenblatt",
            Di <= eps,
            f"joint sample: variable {i} is not drawn from its (conditional) distribution given the value in the same row (KS {Di:.4g} > {eps:.4g})",
            mech,
            spec=spec,
            variable=i,
            ks=Di,
            eps=eps,
            seed=seed,
            n=n,
        )
        worst = max(worst or 0, Di)
        # within bins of the conditioning variable
        c_ = ref.cond[i]
        if c_ is not None and n >= 20000 and mech is None:
            order = np.argsort(X[:, c_], kind="stable")
            for part in np.array_split(order, 4):
                Db = stats.ks_distance_u(P[part, i])
                eb = stats.dkw_eps(part.size)
                ctx.check("c07.joint-conditional-bins", Db <= eb, f"joint sample: variable {i} within a bin of its conditioning variable is not uniform after the conditional cdf (KS {Db:.4g})", spec=spec, variable=i, ks=Db, eps=eb)
    # joint independence of the Rosenblatt image
    gap, at = stats.joint_ecdf_gap(P, m=600 if n > 50000 else 1500, rng=np.random.default_rng(1))
    en = stats.naaman_eps(n, d)
    mech = None
    if gap > en:
        for i in range(d):
            mech = mech or _scalar_dep_mechanism(spec, i, X)
    ctx.check("c07.joint-independence", gap <= en, f"Rosenblatt image of the joint sample is not independent uniform (joint ECDF gap {gap:.4g} > {en:.4g})", mech, spec=spec, gap=gap, at=at, eps=en, seed=seed)
    ctx.sample = {"signature": S.spec_signature(spec), "n": n, "seed": seed, "max_component_ks": worst, "dkw_eps": eps, "joint_gap": gap, "naaman_eps": en}
    # reproducibility
    m = min(n, 5000)
    a = np.asarray(model.draw_sample(m, random_state=seed))
    b = np.asarray(model.draw_sample(m, random_state=seed))
    ctx.check("c07.reproducible", np.array_equal(a, b), "joint: same integer seed gives different samples", seed=seed)
    ga = np.asarray(model.draw_sample(m, random_state=np.random.default_rng(seed)))
    gb = np.asarray(model.draw_sample(m, random_state=np.random.default_rng(seed)))
    ctx.check("c07.reproducible", np.array_equal(ga, gb), "joint: identically seeded Generators give different samples", seed=seed)
    c2 = np.asarray(model.draw_sample(m, random_state=(seed + 1) % 2**32))
    ctx.check("c07.seeds-differ", not np.array_equal(a, c2), "joint: different seeds give identical samples")
    for nn in (1, 2):
        s_ = np.asarray(model.draw_sample(nn, random_state=seed))
        ctx.check("c07.shape", s_.shape == (nn, d), f"joint draw_sample({nn}) has shape {s_.shape}")
    # unseeded joint sample
    Xn = np.asarray(model.draw_sample(min(n, 20000)))
    ctx.check("c07.shape", Xn.shape == (min(n, 20000), d), "unseeded joint sample shape")


def _scalar_dep_mechanism(spec, i, X):
    """Predicate of the finding 'all dependent parameters scalar-returning => one draw for every row':
    every dependent parameter of dimension i is a scalar-returning constant and column i holds one value."""
    dd = spec["dims"][i]
    if dd.get("cond") is None:
        return None
    deps = [v for v in dd["params"].values() if isinstance(v, dict)]
    if deps and all(v["shape"] == "const_scalar" for v in deps) and np.unique(X[:, i]).size == 1:
        return "joint-sample-scalar-dependence-one-draw"
    return None
