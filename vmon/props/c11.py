"""C11 - fixed parameters are honoured at construction, in evaluation and through fitting."""
import itertools

import numpy as np

from .. import monitors as M
from .. import refmodel as R
from .. import specs as S

ID = "C11"
LEVEL = "exploration"
RULE = (
    "case = (family, non-empty proper subset of its parameters fixed via f_<name>, fixed values, fit method, data source). "
    "All families incl. VonMises, LogNormalNormFit and ScipyDistribution subclasses; EVERY non-empty proper subset; MLE for all, "
    "lsq/wlsq for the exponentiated Weibull; data from the family itself (other parameter values) and from other families. A monitor on "
    "Distribution.__init__ / fit observes the instance after construction and after every fit: fixed value in place (1e-12), used by "
    "cdf/pdf/icdf (reference formula with the fixed value), free parameters finite, admissible and moved away from contradicting start values; "
    "fit must not raise for a subset the method supports. Non-trivial = the fixed value differs from the family default and the data contradict "
    "the start values; distinct = (family, subset, method, data source, values)."
    ' Also: conditional evaluation and seeded sampling with int64 / int32 / list / scalar-int conditioning values; fixed values next to 1, next to the default and next to 0.'
)
ASSUMPTIONS = [
    "'supported by the method': MLE supports every proper subset; least squares is implemented only for the exponentiated Weibull with delta fixed "
    "(or nothing fixed) - NotImplementedError for other subsets is the documented 'not supported'",
    "reference formulas (refmodel.py)",
]
REQUIRED = ["c11.constructed", "c11.evaluation-uses-fixed", "c11.fixed-after-fit", "c11.free-estimated", "c11.fit-did-not-raise"]
CASE_TIMEOUT_S = 300


def _subsets(names):
    out = []
    for k in range(1, len(names)):
        out += [list(c) for c in itertools.combinations(names, k)]
    return out


def gen_cases(tier, seed):
    rng = np.random.default_rng([seed, 11])
    reps = 3 if tier == "quick" else 30
    cases = []
    for fam in S.ALL_FAMS:
        for sub in _subsets(R.PARAMS[fam]):
            for r in range(reps):
                gen = S.draw_params(rng, fam, S.RANGE)
                # hostile fixed values: exactly zero for location parameters (falsy), exactly one / the default
                for k in sub:
                    kind = S.KIND[fam][k]
                    u = rng.random()
                    if kind in ("loc", "loc+") and u < 0.35:
                        gen[k] = 0.0
                    elif kind == "pos" and u < 0.15:
                        gen[k] = 1.0
                    elif kind == "pos" and u < 0.3:
                        # next to (not at) the special values 1 and the default: 1 +- a few 1e-6, default * (1 + 2e-6)
                        gen[k] = [1.000003, 0.999995, 1.0 + 1e-9, R.DEFAULTS[fam][k] * (1 + 2e-6)][int(rng.integers(4))]
                    elif kind in ("loc", "loc+") and u < 0.5:
                        gen[k] = [3e-6, 1e-9, -2e-7 if kind == "loc" else 2e-7][int(rng.integers(3))]  # next to zero, not zero
                methods = ["mle"]
                if fam == "expweib":
                    methods += ["lsq", "wlsq"]
                for method in methods:
                    cases.append(
                        {
                            "fam": fam,
                            "fixed": {k: gen[k] for k in sub},
                            "gen": gen,
                            "method": method,
                            "weights": [None, "linear", "quadratic", "cubic"][int(rng.integers(4))] if method != "mle" else None,
                            "source": "own" if r % 2 == 0 else "other",
                            "n": int(rng.choice([300, 1000, 3000])),
                            "sub": int(rng.integers(1 << 31)),
                        }
                    )
    # very small samples (an interval of a joint fit may hold a handful of points): the fixed value stays whatever n is
    trng = np.random.default_rng([seed, 11, 6])
    for fam, k, val in (("weibull", "gamma", 0.5), ("weibull", "gamma", -0.3), ("normal", "mu", 1.7), ("lognormal", "sigma", 0.4), ("expweib", "delta", 2.5), ("gumbel_r", "loc", 0.8)):
        if fam not in S.ALL_FAMS:
            continue
        for n_ in (3, 4, 5, 8):
            gen = S.draw_params(trng, fam, S.RANGE)
            gen[k] = float(val)
            cases.append({"fam": fam, "fixed": {k: gen[k]}, "gen": gen, "method": "mle", "weights": None, "source": "own", "n": n_, "tiny": True, "sub": int(trng.integers(1 << 31))})
    # every single fixed positive parameter once next to the special value 1 (and once next to its default)
    nrng = np.random.default_rng([seed, 11, 5])
    for fam in S.ALL_FAMS:
        for k in R.PARAMS[fam]:
            if S.KIND[fam][k] != "pos" or len(R.PARAMS[fam]) < 2:
                continue
            for val in (1.000003, R.DEFAULTS[fam][k] * (1 - 4e-6)):
                gen = S.draw_params(nrng, fam, S.RANGE)
                gen[k] = float(val)
                if not R.admissible(fam, gen):
                    continue
                cases.append({"fam": fam, "fixed": {k: gen[k]}, "gen": gen, "method": "mle", "weights": None, "source": "own", "n": 1000, "sub": int(nrng.integers(1 << 31))})
    return cases


def install():
    pass


def _data(case, rng):
    fam, gen, n = case["fam"], case["gen"], case["n"]
    if case["source"] == "own":
        u = rng.random(n)
        with np.errstate(all="ignore"):
            x = np.asarray(R.icdf(fam, u, **gen), float)
        return x[np.isfinite(x)]
    if R.SUPPORT[fam] == "pos":
        # another non-negative family, shifted above the (possibly fixed) location
        lo = max(case["fixed"].get("gamma", 0.0), case["fixed"].get("loc", 0.0), gen.get("gamma", 0.0) if "gamma" in case["fixed"] else 0.0)
        return lo + rng.gamma(2.0, 1.3, n) + 1e-3
    if fam == "vonmises":
        return rng.normal(gen["mu"], 0.7, n)
    return rng.logistic(1.0, 2.0, n)


def run_case(case, ctx):
    fam, fixed, method = case["fam"], case["fixed"], case["method"]
    names = R.PARAMS[fam]
    rng = np.random.default_rng(case["sub"])
    cls = S.classes()[fam]
    ctx.cls("family", fam)
    ctx.cls("method", method)
    ctx.cls("n_fixed", len(fixed))
    ctx.sig = f"{fam}|{sorted(fixed)}|{method}|{case['source']}|{case['sub']}"
    kw = {f"f_{k}": v for k, v in fixed.items()}
    # documented: "if f_<name> is set, <name> is ignored" - a decoy plain value is passed as well, after or before the
    # fixed one (keyword order must not matter)
    decoy_mode = case["sub"] % 3
    if decoy_mode == 1:
        kw = {**kw, **{k: v * 1.37 + 0.11 for k, v in fixed.items()}}
    elif decoy_mode == 2:
        kw = {**{k: v * 1.37 + 0.11 for k, v in fixed.items()}, **kw}
    ctx.cls("decoy-plain-value", ["none", "after-fixed", "before-fixed"][decoy_mode])
    d = cls(**kw)
    info = {"family": fam, "fixed": fixed, "method": method}

    # 1. construction
    ok = all(abs(d.parameters[k] - v) <= 1e-12 * max(1.0, abs(v)) for k, v in fixed.items())
    mech = "vonmises-init-ignores-fixed" if (fam == "vonmises" and not ok and all(d.parameters[k] == R.DEFAULTS[fam][k] for k in fixed)) else None
    if not ok and fam in S.SCIPY_SUB and decoy_mode == 1 and all(d.parameters[k] == kw[k] for k in fixed):
        mech = "scipydistribution-plain-keyword-after-fixed-wins"
    ctx.check("c11.constructed", ok, f"{fam}: f_<name> not in .parameters after construction", mech, got=d.parameters, **info)

    # 2. evaluation uses the fixed value
    eff = dict(R.DEFAULTS[fam])
    eff.update(fixed)
    if R.admissible(fam, eff) and not (fam == "lnnf" and eff["mu_norm"] <= 0):
        q = np.array([0.05, 0.3, 0.5, 0.8, 0.97])
        with np.errstate(all="ignore"):
            x = np.asarray(R.icdf(fam, q, **eff), float)
        if np.all(np.isfinite(x)):
            got = np.asarray(d.cdf(x), float)
            okc = bool(np.all(np.abs(got - q) <= 1e-9))
            ctx.check("c11.evaluation-uses-fixed", okc, f"{fam}: cdf of an instance with fixed parameters does not use them", "vonmises-init-ignores-fixed" if (fam == "vonmises" and not ok and not okc) else None, got=got.tolist(), want=q.tolist(), **info)
            goti = np.asarray(d.icdf(q), float)
            oki = bool(np.all(np.abs(goti - x) <= 1e-7 * np.maximum(1.0, np.abs(x))))
            ctx.check("c11.evaluation-uses-fixed", oki, f"{fam}: icdf of an instance with fixed parameters does not use them", "vonmises-init-ignores-fixed" if (fam == "vonmises" and not ok and not oki) else None, **info)
    else:
        ctx.count("c11.evaluation-skipped-default-inadmissible")

    # 2b. two conditional distributions with the same fixed parameter names but different values, both alive
    free_names = [k for k in names if k not in fixed]
    if free_names:
        from virocon import DependenceFunction
        from virocon.distributions import ConditionalDistribution

        def _c(x, a=1.0):
            return a + 0 * x

        other_vals = {k: v * 1.5 + 0.25 for k, v in fixed.items()}
        cd_a = ConditionalDistribution(cls(**{f"f_{k}": v for k, v in fixed.items()}), {k: DependenceFunction(_c) for k in free_names})
        cd_b = ConditionalDistribution(cls(**{f"f_{k}": v for k, v in other_vals.items()}), {k: DependenceFunction(_c) for k in free_names})
        g = np.array([0.5, 1.0, 2.0])
        for cd_, want in ((cd_a, fixed), (cd_b, other_vals), (cd_a, fixed)):
            pv = cd_._get_param_values(g)
            okcd = all(np.all(np.asarray(pv[k]) == v) for k, v in want.items()) and all(cd_.fixed_parameters[k] == v for k, v in want.items())
            ctx.check("c11.conditional-fixed", okcd, f"{fam}: a conditional distribution does not use its own fixed value (another conditional distribution with another value exists)", want=want, got={k: pv[k] for k in want}, **info)

        # 2c. the fixed value is used whatever form the conditioning values come in: an integer vector / list / scalar
        # gives the same results as the same values as floats (pdf, cdf, icdf and seeded samples)
        eff_c = dict(R.DEFAULTS[fam])
        eff_c.update(fixed)
        if R.admissible(fam, eff_c) and not (fam == "lnnf" and eff_c["mu_norm"] <= 0):

            def _mk(a0):
                def f(x, a=a0):
                    return a + 0 * x

                return f

            cd_c = ConditionalDistribution(cls(**{f"f_{k}": v for k, v in fixed.items()}), {k: DependenceFunction(_mk(R.DEFAULTS[fam][k])) for k in free_names})
            with np.errstate(all="ignore"):
                xq = np.asarray(R.icdf(fam, np.array([0.2, 0.5, 0.8]), **eff_c), float)
            if np.all(np.isfinite(xq)):
                gi = np.array([1, 2, 3])
                forms = {"int64": gi, "int32": gi.astype(np.int32), "list-of-int": [1, 2, 3]}
                base_ = {"cdf": np.asarray(cd_c.cdf(xq, gi.astype(float)), float), "pdf": np.asarray(cd_c.pdf(xq, gi.astype(float)), float), "icdf": np.asarray(cd_c.icdf(np.array([0.2, 0.5, 0.8]), gi.astype(float)), float), "draw": np.asarray(cd_c.draw_sample(4, gi.astype(float), random_state=11), float)}
                okw = bool(np.all(np.abs(base_["cdf"] - np.array([0.2, 0.5, 0.8])) <= 1e-9))
                ctx.check("c11.conditional-fixed", okw, f"{fam}: conditional cdf with a fixed parameter does not use it", want=[0.2, 0.5, 0.8], got=base_["cdf"], **info)
                for fname, gform in forms.items():
                    try:
                        got_ = {"cdf": np.asarray(cd_c.cdf(xq, gform), float), "pdf": np.asarray(cd_c.pdf(xq, gform), float), "icdf": np.asarray(cd_c.icdf(np.array([0.2, 0.5, 0.8]), gform), float), "draw": np.asarray(cd_c.draw_sample(4, gform, random_state=11), float)}
                    except Exception as e:  # noqa: BLE001
                        ctx.count(f"c11.conditional-given-form-raised[{fname}:{type(e).__name__}]")
                        continue
                    for what_, v_ in got_.items():
                        same_ = v_.shape == base_[what_].shape and bool(np.array_equal(v_, base_[what_], equal_nan=True))
                        ctx.check("c11.conditional-fixed", same_, f"{fam}: conditional {what_} with a fixed parameter depends on the dtype/form of the conditioning values ({fname} vs float)", form=fname, got=v_, want=base_[what_], **info)
                gs_int = np.asarray(cd_c.draw_sample(5, 2, random_state=3), float)
                gs_flt = np.asarray(cd_c.draw_sample(5, 2.0, random_state=3), float)
                ctx.check("c11.conditional-fixed", bool(np.array_equal(gs_int, gs_flt)), f"{fam}: conditional draw_sample with a fixed parameter differs between given=2 and given=2.0", got=gs_int, want=gs_flt, **info)

        # 2d. the per-interval fits of a conditional distribution keep the fixed value (every template family, also the
        # ones defined through a scipy distribution object)
        if method == "mle" and R.admissible(fam, eff_c) and not (fam == "lnnf" and eff_c["mu_norm"] <= 0) and fam != "vonmises":

            def _lin(x, a=1.0, b=0.0):
                return a + b * x

            cd_f = ConditionalDistribution(cls(**{f"f_{k}": v for k, v in fixed.items()}), {k: DependenceFunction(_lin) for k in free_names})
            ivals = []
            for j in range(4):
                u = np.random.default_rng(case["sub"] + j).random(120)
                with np.errstate(all="ignore"):
                    xi = np.asarray(R.icdf(fam, u, **eff_c), float)
                ivals.append(xi[np.isfinite(xi)])
            try:
                cd_f.fit(ivals, [0.5, 1.5, 2.5, 3.5], [(0, 1), (1, 2), (2, 3), (3, 4)], "mle", None)
                per = cd_f.parameters_per_interval
                okpi = len(per) == 4 and all(abs(pi[k] - v) <= 1e-12 * max(1.0, abs(v)) for pi in per for k, v in fixed.items())
                ctx.check("c11.conditional-fixed", okpi, f"{fam}: a per-interval fit of a conditional distribution changed a fixed parameter", want=fixed, got=[{k: pi[k] for k in fixed} for pi in per], **info)
            except Exception as e:  # noqa: BLE001
                ctx.count(f"c11.conditional-interval-fit-raised[{type(e).__name__}]")

    # 3. fitting
    data = _data(case, rng)
    start = dict(d.parameters)
    ctx.nontrivial = any(abs(v - R.DEFAULTS[fam][k]) > 1e-9 for k, v in fixed.items())
    ctx.sample = {"family": fam, "fixed": fixed, "method": method, "weights": case["weights"], "data_source": case["source"], "n": int(data.size), "data_head": data[:4].tolist()}
    supported = method == "mle" or (fam == "expweib" and set(fixed) == {"delta"})
    try:
        d.fit(data, method, case["weights"])
        raised = None
    except NotImplementedError as e:
        raised = e
    except Exception as e:  # noqa: BLE001
        raised = e
    if raised is not None and case.get("tiny"):
        ctx.count(f"c11.tiny-sample-fit-raised[{type(raised).__name__}]")  # (a handful of points may not be fittable: reported, not judged)
        return
    if raised is not None:
        if isinstance(raised, NotImplementedError) and not supported:
            ctx.count("c11.unsupported-subset-rejected")
            return
        mech = None
        if isinstance(raised, TypeError) and "fshape" in str(raised):
            if fam == "vonmises" and "kappa" in fixed:
                mech = "vonmises-mle-unknown-keyword-fshape"
            if fam == "gengamma" and ({"m", "c"} & set(fixed)):
                mech = "gengamma-mle-unknown-keyword-fshape"
        ctx.check("c11.fit-did-not-raise", False, f"{fam}: fit with fixed {sorted(fixed)} raised {type(raised).__name__}", mech, message=str(raised)[:200], **info)
        return
    if not supported:
        ctx.count("c11.unsupported-subset-accepted")
    ctx.check("c11.fit-did-not-raise", True)
    after = d.parameters
    okf = all(abs(after[k] - v) <= 1e-12 * max(1.0, abs(v)) for k, v in fixed.items())
    ctx.check("c11.fixed-after-fit", okf, f"{fam}: fixed parameter changed by fit", "vonmises-init-ignores-fixed" if (fam == "vonmises" and not ok) else None, after=after, **info)
    if case.get("tiny"):
        ctx.check("c11.f-attribute-kept", all(getattr(d, f"f_{k}") == v for k, v in fixed.items()), f"{fam}: f_<name> attribute altered by fit", **info)
        return
    free = [k for k in names if k not in fixed]
    fin = all(np.isfinite(after[k]) for k in free)
    # admissibility of estimates is C12's clause (data from the family); for arbitrary data only finiteness is required here
    ctx.check("c11.free-finite", fin, f"{fam}: non-fixed estimates not finite after fit", after=after, **info)
    moved = [k for k in free if after[k] != start[k]]
    ctx.check("c11.free-estimated", len(moved) == len(free) or (method == "mle" and _start_is_optimal(fam, free, start, data, after)), f"{fam}: non-fixed parameter kept its start value although data were fitted", unchanged=[k for k in free if k not in moved], after=after, **info)
    # f_ attribute still the declared one
    okattr = all(getattr(d, f"f_{k}") == v for k, v in fixed.items())
    ctx.check("c11.f-attribute-kept", okattr, f"{fam}: f_<name> attribute altered by fit", **info)
    # history: a second fit of the same (already fitted) object on other data
    data2 = data * float(rng.uniform(1.1, 1.6)) if R.SUPPORT[fam] == "pos" and not any(k in fixed for k in ("gamma", "loc")) else data + float(rng.uniform(-0.2, 0.2)) * (0.0 if R.SUPPORT[fam] == "pos" else 1.0)
    try:
        d.fit(data2[rng.permutation(len(data2))], method, case["weights"])
        after2 = d.parameters
        okf2 = all(abs(after2[k] - v) <= 1e-12 * max(1.0, abs(v)) for k, v in fixed.items())
        ctx.check("c11.fixed-after-refit", okf2, f"{fam}: fixed parameter changed by a second fit of the same object", after=after2, **info)
        ctx.check("c11.free-finite", all(np.isfinite(after2[k]) for k in free), f"{fam}: non-fixed estimates not finite after a second fit", after=after2, **info)
    except Exception as e:  # noqa: BLE001
        if not isinstance(e, NotImplementedError):
            ctx.check("c11.fit-did-not-raise", False, f"{fam}: second fit with fixed {sorted(fixed)} raised {type(e).__name__}", message=str(e)[:200], **info)


def _start_is_optimal(fam, free, start, data, after=None):
    """A free parameter that still has its start value counts as estimated if that value is optimal within the
    optimiser's resolution: moving it by +-2 % and +-10 % (the other parameters at their fitted values) does not raise
    the log-likelihood of the data by more than 0.5 (seen: a generalised-gamma shape whose maximum-likelihood value was
    0.9992 against a start of 1.0)."""
    if after is None:
        return False
    from .c12 import loglik

    base = loglik(fam, data, after)
    if not np.isfinite(base):
        return False
    for k in free:
        if after[k] != start[k]:
            continue
        for f in (0.9, 0.98, 1.02, 1.1):
            q = dict(after)
            q[k] = after[k] * f if after[k] != 0 else (f - 1.0)
            v = loglik(fam, data, q)
            if np.isfinite(v) and v > base + 0.5:
                return False
    return True
