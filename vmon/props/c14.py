"""C14 - dependence functions are fitted within bounds, optimally, in dependency order."""
import itertools
import math
import warnings

import numpy as np

from .. import monitors as M
from .. import specs as S

ID = "C14"
LEVEL = "exploration"
RULE = (
    "single-fit cases: shape from {power3, exp3, asymdecrease3, lnsquare2, logistics4, linear2, limited_growth3, poly3, tanh3} with random true coefficients, "
    "3..20 support points with noise, bounds of all kinds (None / one-sided / finite, active and inactive at the optimum), optional inequality constraints "
    "(dict or list, active or inactive), optional weights callable; chain cases: chains of length 2 and 3 (a function taking another dependence function as "
    "parameter; also the predefined alpha3/logistics4 pair inside a ConditionalDistribution) fitted in ALL declaration orders and ALL fit-call orders, then re-fitted "
    "on other data in another order. A monitor on DependenceFunction._fit judges bounds, constraints, residual not above start, no admissible +-1% perturbation "
    "improving the residual, lstsq equality for linear shapes; an online trace checker over fit/_fit/callback events requires that the last _fit of every dependent "
    "function follows the last _fit of each of its conditioners and saw their final parameters; final function values are compared with a fit in topological order. "
    "Non-trivial = at least 3 support points and a shape with >= 2 free parameters; distinct = (shape/chain, bounds kind, constraints, weights, orders, seed)."
    ' Also: wirings other than chains (a conditioner used for two parameters, two conditioners, a shared conditioner) in every call order; conditioner data exactly on its start curve.'
)
ASSUMPTIONS = [
    "documented meaning of weights(x, y): observation weights (the weighted residual is sum w_i r_i^2); a result that is instead optimal for sum (r_i / w_i)^2 "
    "is attributed to the known finding 'weights handed to curve_fit as sigma'",
    "slack 1e-6 relative on residual comparisons (optimiser termination), bounds tolerance 1e-9",
    "weighted fitting with constraints raises NotImplementedError in the code (documented there): not judged",
]
REQUIRED = ["c14.within-bounds", "c14.not-worse-than-start", "c14.no-improving-perturbation", "c14.linear-is-lstsq", "c14.trace-order", "c14.chain-equals-topological", "c14.constraints-satisfied"]
CASE_TIMEOUT_S = 300

FIT_SHAPES = ["power3", "exp3", "asymdecrease3", "lnsquare2", "logistics4", "linear2", "limited_growth3", "poly3", "tanh3"]
LINEAR = {"linear2": lambda x: np.c_[np.ones_like(x), x], "poly3": lambda x: np.c_[np.ones_like(x), x, x * x]}

TRACE = []


# ----------------------------------------------------------------------
def _objective(dep, x, y, w, p, mode):
    with np.errstate(all="ignore"):
        r = np.asarray(dep.func(x, *p), float) - y
    if w is None:
        return float(np.sum(r * r))
    if mode == "documented":
        return float(np.sum(w * r * r))
    return float(np.sum((r / w) ** 2))


def _project(p, bounds):
    if bounds is None:
        return list(p)
    out = []
    for v, (lo, hi) in zip(p, bounds):
        if lo is not None:
            v = max(v, lo)
        if hi is not None:
            v = min(v, hi)
        out.append(v)
    return out


def _constraint_values(constraints, p):
    if constraints is None:
        return []
    cons = [constraints] if isinstance(constraints, dict) else list(constraints)
    return [float(c["fun"](np.asarray(p, float))) for c in cons]


def _pre_fit(call):
    dep = call.self
    TRACE.append(("_fit-start", id(dep), {k: dict(v.parameters) for k, v in dep.dependent_parameters.items()}))
    return {"p0": list(dep.parameters.values())}


def _post_fit(call):
    c = M.current()
    if c is None:
        return
    dep = call.self
    x = np.asarray(call.args[0], float)
    y = np.asarray(call.args[1], float)
    if call.exc is not None:
        if isinstance(call.exc, NotImplementedError):
            c.count("c14.wlsq-with-constraints-not-implemented")
        else:
            c.count("c14.fit-raised")
            c.notes.setdefault("fit_errors", []).append(f"{type(call.exc).__name__}: {str(call.exc)[:80]}")
        return
    TRACE.append(("_fit-end", id(dep), dict(dep.parameters)))
    p = [float(v) for v in dep.parameters.values()]
    p0 = [float(v) for v in call.pre["p0"]]
    bounds, constraints = dep.bounds, dep.constraints
    w = None
    if dep.weights is not None:
        w = np.asarray(dep.weights(x, y), float)
    info = {"func": getattr(dep.func, "__name__", getattr(getattr(dep.func, "func", None), "__name__", "?")), "n_points": int(x.size), "bounds": bounds, "weighted": w is not None, "constrained": constraints is not None, "fitted": p, "start": p0}
    if not all(np.isfinite(p)):
        c.check("c14.finite", False, "dependence fit returned non-finite parameters", **info)
        return
    # (a) bounds
    okb = True
    if bounds is not None:
        for v, (lo, hi) in zip(p, bounds):
            if (lo is not None and v < lo - 1e-9 * max(1, abs(lo))) or (hi is not None and v > hi + 1e-9 * max(1, abs(hi))):
                okb = False
    c.check("c14.within-bounds", okb, "fitted parameter outside its declared bounds", **info)
    # (b) constraints
    if constraints is not None:
        cv = _constraint_values(constraints, p)
        okc = all(v >= -2e-6 for v in cv)  # SLSQP accepts a point whose summed constraint violation is below its acc = 1e-6
        c.check("c14.constraints-satisfied", okc, "a declared inequality constraint is violated at the fitted parameters", "dep-constraints-never-passed-to-slsqp" if not okc else None, constraint_values=cv, **info)
    # (c) optimality
    mode = "documented"
    obj = _objective(dep, x, y, w, p, mode)
    obj0 = _objective(dep, x, y, w, p0, mode)
    slack = 1e-6 * abs(obj) + 1e-18 + 1e-9 * float(np.sum(y * y)) * 1e-6

    def on_bound(j):
        # trust-region-reflective keeps its iterates strictly inside: a parameter within 1e-4 of a bound counts as ON it (4.3e-5 seen)
        if bounds is None:
            return False
        lo, hi = bounds[j]
        return (lo is not None and abs(p[j] - lo) <= 1e-4 * max(1.0, abs(lo))) or (hi is not None and abs(p[j] - hi) <= 1e-4 * max(1.0, abs(hi)))

    def improving(mode_, rel_slack=1e-6):
        base = _objective(dep, x, y, w, p, mode_)
        worst = None
        for j in range(len(p)):
            for sgn in (+1, -1):
                for rel in (1e-2, 1e-3):
                    q = list(p)
                    q[j] = p[j] + sgn * rel * max(abs(p[j]), 1e-3)
                    q = _project(q, bounds)
                    if q == p:
                        continue
                    if on_bound(j) and abs(q[j] - p[j]) <= 1e-4 * max(1.0, abs(p[j])):
                        continue  # the step only moves the parameter onto the bound it already sits at
                    if constraints is not None and any(v < 0 for v in _constraint_values(constraints, q)):
                        continue
                    o = _objective(dep, x, y, w, q, mode_)
                    # optimiser termination: relative 1e-6; the constrained (SLSQP) path stops on an ABSOLUTE change of
                    # the objective below its documented default ftol = 1e-6
                    # (SLSQP stops when one iteration changes the objective by less than 1e-6; the distance to the
                    #  optimum it leaves is a multiple of that in a flat valley - 2.5e-5 in 6000 fits, 3.4e-4 (0.035 %) once in
                    #  another 3000 - so 1e-4 + 0.1 % of the residual is allowed; a constraint that is ignored or a step size
                    #  that freezes the search is off by orders of magnitude more)
                    if np.isfinite(o) and o < base - (rel_slack * abs(base) + 1e-18 + 1e-15 * float(np.sum(y * y)) + ((1e-4 + 1e-3 * abs(base)) if constraints is not None else 0.0)):
                        if worst is None or o < worst[0]:
                            worst = (o, j, sgn * rel, q)
        return base, worst

    base, better = improving("documented")
    if better is not None and constraints is not None and any(abs(pj) > 1e3 * (1.0 + abs(p0j)) for pj, p0j in zip(p, p0)):
        # the constrained search left the neighbourhood of its start by three orders of magnitude and stopped in a narrow
        # curved valley (b = -25016, c = -2849 from a start of 1.6, 0.13): coordinate-wise perturbations are not a fair
        # probe there; the fit is judged by "not worse than the start" only
        c.count("c14.runaway-parameters(local-optimality-not-judged)")
        better = None
    start_ok = (not np.isfinite(obj0)) or obj <= obj0 + 1e-6 * abs(obj0) + 1e-18
    mech = None
    if w is not None and (better is not None or not start_ok):
        base_s, better_s = improving("as-sigma", 1e-4)  # mechanism predicate: optimal for the sigma reading (to 1e-4), far from it for the documented one
        o0s = _objective(dep, x, y, w, p0, "as-sigma")
        if better_s is None and (not np.isfinite(o0s) or base_s <= o0s + 1e-6 * abs(o0s) + 1e-18):
            mech = "dep-wlsq-weights-passed-as-sigma"
    if better is not None and mech is None and constraints is not None:
        mech = _eps_mechanism(dep, x, y, p0, bounds, p)
    c.check("c14.not-worse-than-start", start_ok, "the residual after fitting is larger than at the start parameters", mech, residual=obj, residual_at_start=obj0, **info)
    c.check(
        "c14.no-improving-perturbation",
        better is None,
        "a nearby admissible perturbation of the fitted parameters has a smaller residual",
        mech,
        residual=base,
        better=None if better is None else {"residual": better[0], "parameter_index": better[1], "relative_step": better[2]},
        **info,
    )
    # (d) linear shapes: unique linear least-squares solution (inactive bounds, no constraints, no weights)
    name = info["func"].lstrip("_")
    if name in LINEAR and constraints is None and w is None and not dep.dependent_parameters:
        A = LINEAR[name](x)
        sol, *_ = np.linalg.lstsq(A, y, rcond=None)
        inactive = bounds is None or all((lo is None or s > lo + 1e-6) and (hi is None or s < hi - 1e-6) for s, (lo, hi) in zip(sol, bounds))
        if inactive and np.linalg.matrix_rank(A) == A.shape[1] and x.size > A.shape[1]:
            scale = np.max(np.abs(sol)) + 1e-12
            # (curve_fit stops on a relative change of 1e-8 in the cost; with regressors 1, x, x**2 up to 144 the parameters are
            #  then good to a few 1e-6 of the largest one - 3.6e-6 seen; a fit to other data or with other weights is off by 1e-3)
            c.check("c14.linear-is-lstsq", bool(np.all(np.abs(np.asarray(p) - sol) <= 1e-4 * scale + 1e-9)), "a shape that is linear in its parameters is not fitted to the linear least-squares solution", lstsq=sol.tolist(), **info)


def _eps_mechanism(dep, x, y, p0, bounds, p):
    """Predicate of the (fixed) finding: the constrained path calls SLSQP with a finite-difference step of 1e-15,
    and the same call with the default step reaches a lower residual."""
    try:
        from scipy.optimize import minimize

        f = lambda q: float(np.sum((np.asarray(dep.func(x, *q), float) - y) ** 2))  # noqa: E731
        r_bad = minimize(f, p0, method="SLSQP", bounds=bounds, options={"eps": 1e-15})
        if np.allclose(r_bad.x, p, rtol=1e-9, atol=1e-12):
            return "dep-constrained-fit-eps-1e-15"
    except Exception:  # noqa: BLE001
        pass
    return None


def _post_callback(call):
    if M.current() is None:
        return
    TRACE.append(("callback", id(call.self), id(call.args[0]) if call.args else None))


def _post_public_fit(call):
    if M.current() is None:
        return
    TRACE.append(("fit", id(call.self), None))


_DONE = [False]


def install():
    if _DONE[0]:
        return
    _DONE[0] = True
    from virocon import DependenceFunction

    M.wrap(DependenceFunction, "_fit", pre=_pre_fit, post=_post_fit, tag="c14")
    M.wrap(DependenceFunction, "callback", post=_post_callback, tag="c14")
    M.wrap(DependenceFunction, "fit", post=_post_public_fit, tag="c14")


# ----------------------------------------------------------------------
def gen_cases(tier, seed):
    rng = np.random.default_rng([seed, 14])
    cases = []
    n_single = 220 if tier == "quick" else 5000
    for i in range(n_single):
        cases.append(
            {
                "kind": "single",
                "shape": FIT_SHAPES[i % len(FIT_SHAPES)],
                "n": int(rng.integers(3, 21)),
                "bounds": str(rng.choice(["none", "predefined", "finite-inactive", "finite-active", "one-sided-active", "zero-upper-active", "zero-lower-active"])),
                "constraints": str(rng.choice(["none", "none", "dict-inactive", "list-inactive", "dict-active", "list-active"])),
                "weights": str(rng.choice(["none", "none", "y", "x", "ones", "inv-y", "y-itself", "x-itself"])),  # (-itself: the callable hands back its argument object, as the shipped `lambda x, y: y` does)
                "noise": float(rng.choice([0.0, 0.01, 0.05])),
                "sub": int(rng.integers(1 << 31)),
            }
        )
    # shapes that are linear in their parameters, without bounds / constraints / weights: the unique linear least-squares
    # solution is the oracle - present in every run whatever the seed
    lrng = np.random.default_rng([seed, 14, 2])
    for shp in [s_ for s_ in FIT_SHAPES if s_ in LINEAR] * 2:
        for bk in ("none", "finite-inactive"):
            cases.append({"kind": "single", "shape": shp, "n": int(lrng.integers(5, 21)), "bounds": bk, "constraints": "none", "weights": "none", "noise": 0.01, "sub": int(lrng.integers(1 << 31))})
    perms2 = list(itertools.permutations(range(2)))
    perms3 = list(itertools.permutations(range(3)))
    n_chain = 3 if tier == "quick" else 40
    for r in range(n_chain):
        for decl in perms2:
            for call in perms2:
                for re_call in perms2:
                    cases.append({"kind": "chain", "length": 2, "decl": list(decl), "call": list(call), "recall": list(re_call), "sub": int(rng.integers(1 << 31))})
        for call in perms3:
            for re_call in (perms3[r % 6], perms3[(r + 3) % 6]):
                cases.append({"kind": "chain", "length": 3, "decl": list(perms3[(r + 1) % 6]), "call": list(call), "recall": list(re_call), "sub": int(rng.integers(1 << 31))})
        for order in (["alpha", "beta"], ["beta", "alpha"]):
            for reorder in (["alpha", "beta"], ["beta", "alpha"]):
                cases.append({"kind": "conditional-chain", "order": order, "reorder": reorder, "sub": int(rng.integers(1 << 31))})
    # other wirings than a chain: one conditioner used for two parameters of a dependent, two distinct conditioners of one
    # dependent, one conditioner shared by two dependents - every call order, fit and re-fit
    drng = np.random.default_rng([seed, 14, 3])
    for r in range(1 if tier == "quick" else 12):
        for topo in ("same-conditioner-twice", "two-conditioners", "shared-conditioner"):
            for call in perms3:
                cases.append({"kind": "dag", "topology": topo, "call": list(call), "recall": list(perms3[(r + call[0]) % 6]), "sub": int(drng.integers(1 << 31))})
    return cases


def _true_coef(shape, rng):
    lo, hi = float(rng.uniform(0.2, 2.0)), float(rng.uniform(2.5, 8.0))
    d = S._gen_dep(rng, "pos", lo, hi, 0.3, 12.0, "pos", allow_hostile=False)
    for _ in range(50):
        if d["shape"] == shape:
            return d["coef"]
        d = S._gen_dep(rng, "pos", lo, hi, 0.3, 12.0, "pos", allow_hostile=False)
    # direct construction
    xs = 12.0
    span = hi - lo
    return {
        "power3": [lo, span / xs**0.7, 0.7],
        "exp3": [lo, span, -0.3],
        "asymdecrease3": [lo, span, 0.4],
        "lnsquare2": [math.exp(lo / 4), 1.5, 0.0],
        "logistics4": [lo, span, -0.8, 5.0],
        "linear2": [lo, span / xs],
        "limited_growth3": [lo, span, 0.3],
        "poly3": [lo, 0.3 * span / xs, 0.7 * span / xs**2],
        "tanh3": [lo, span, 0.2],
    }[shape]


def run_case(case, ctx):
    ctx.cls("kind", case["kind"])
    ctx.sig = str({k: v for k, v in case.items() if k not in ("id", "cost")})
    TRACE.clear()
    with warnings.catch_warnings():
        warnings.simplefilter("ignore")
        {"single": _single, "chain": _chain, "conditional-chain": _cond_chain, "dag": _dag}[case["kind"]](case, ctx)


def _single(case, ctx):
    from virocon import DependenceFunction

    rng = np.random.default_rng(case["sub"])
    shape = case["shape"]
    fn, ncoef, _ = S.SHAPES[shape]
    coef = _true_coef(shape, rng)
    n = max(case["n"], len(coef))  # (fewer support points than parameters is an ill-posed request: scipy refuses it)
    x = np.sort(rng.uniform(0.3, 12.0, n))
    y = np.asarray(fn(x, *coef), float)
    y = y * (1 + case["noise"] * rng.standard_normal(n))
    ctx.cls("shape", shape)
    ctx.cls("bounds", case["bounds"])
    ctx.cls("constraints", case["constraints"])
    ctx.cls("weights", case["weights"])
    bkind = case["bounds"]
    if shape == "lnsquare2":
        coef = coef[:3]
    k = len(coef)
    if bkind == "none":
        bounds = None
    elif bkind == "predefined":
        bounds = [(0, None)] * min(2, k) + [(None, None)] * (k - min(2, k))
        if shape == "logistics4":
            bounds = [(0, None), (0, None), (None, 0), (0, None)]
    elif bkind == "finite-inactive":
        bounds = [(c_ - 10 * abs(c_) - 5, c_ + 10 * abs(c_) + 5) for c_ in coef]
    elif bkind == "finite-active":
        bounds = [(c_ - 10 * abs(c_) - 5, c_ + 10 * abs(c_) + 5) for c_ in coef]
        j = int(rng.integers(k))
        bounds[j] = (coef[j] + 0.2 * abs(coef[j]) + 0.05, coef[j] + 3 * abs(coef[j]) + 1.0)  # optimum excluded: the bound is active
    elif bkind in ("zero-upper-active", "zero-lower-active"):
        # a bound that is exactly 0 (falsy) and excludes the unconstrained optimum: data are mirrored so that the
        # optimum of parameter j has the sign the bound forbids
        bounds = [(None, None)] * k
        j = 1 if k > 1 else 0
        if shape in ("linear2", "poly3", "power3", "exp3", "asymdecrease3", "logistics4", "limited_growth3", "tanh3"):
            if bkind == "zero-upper-active":
                bounds[j] = (None, 0) if coef[j] > 0 else (None, 0.0)
                if coef[j] <= 0:
                    bounds[j] = (coef[j] - 5.0, None)
                    bkind = "finite-inactive"
            else:
                if coef[j] < 0:
                    bounds[j] = (0, None)
                else:
                    bounds[j] = (None, 0.0)  # positive optimum, forbidden by an upper bound of 0.0
    else:
        bounds = [(None, None)] * k
        j = int(rng.integers(k))
        bounds[j] = (None, coef[j] - 0.2 * abs(coef[j]) - 0.05)
    cons = None
    ck = case["constraints"]
    if ck != "none":
        j = int(rng.integers(k))
        if "inactive" in ck:
            f = lambda p, j=j, v=coef[j]: p[j] - (v - 5 * abs(v) - 5)  # noqa: E731
        else:
            f = lambda p, j=j, v=coef[j]: p[j] - (v + 0.3 * abs(v) + 0.1)  # noqa: E731  (requires p_j above its unconstrained optimum)
        cons = {"type": "ineq", "fun": f}
        if ck.startswith("list"):
            cons = [cons, {"type": "ineq", "fun": lambda p: 1e6 - p[0]}]
    wk = case["weights"]
    wfun = {"none": None, "y": lambda x_, y_: np.abs(y_) + 0.1, "x": lambda x_, y_: x_ + 0.1, "ones": lambda x_, y_: np.ones_like(x_), "inv-y": lambda x_, y_: 1.0 / (np.abs(y_) + 0.1), "y-itself": lambda x_, y_: y_, "x-itself": lambda x_, y_: x_}[wk]
    # start values: a perturbation of the true coefficients that is admissible
    p0 = [c_ * float(rng.uniform(0.7, 1.4)) + 0.05 * float(rng.standard_normal()) for c_ in coef]
    p0 = _project(p0, bounds)
    if cons is not None:
        # make the start feasible for the active constraint
        for _ in range(3):
            vals = _constraint_values(cons, p0)
            if all(v >= 0 for v in vals):
                break
            # just inside the feasible region (a start far inside, e.g. a positive exponent of exp3, makes the
            # problem explode numerically - that is a property of the start, not of the fit)
            p0[j] = coef[j] + 0.32 * abs(coef[j]) + 0.12
            p0 = _project(p0, bounds)
    dep = DependenceFunction(fn, bounds=bounds, constraints=cons, weights=wfun)
    dep.parameters = dict(zip(dep.parameters.keys(), p0))
    ctx.nontrivial = n >= 3 and k >= 2
    ctx.sample = {"shape": shape, "true": coef, "start": p0, "n": n, "bounds": bounds, "constraints": ck, "weights": wk}
    x_given, y_given = x.copy(), y.copy()

    def _as_supplied():
        # the parameters are fitted to the SUPPLIED observations: the caller's arrays are the same afterwards
        ctx.check("c14.data-as-supplied", np.array_equal(x, x_given) and np.array_equal(y, y_given), "the supplied support points / values were modified by the fit (the parameters then belong to other data than supplied)", weights=wk, x_changed=not np.array_equal(x, x_given), y_changed=not np.array_equal(y, y_given))

    try:
        dep.fit(x, y)
    except NotImplementedError:
        _as_supplied()
        return
    except (RuntimeError, ValueError) as e:
        _as_supplied()
        # curve_fit may fail to converge / reject an infeasible start: "Failed to fit" is a reported failure, not a wrong result
        ctx.count("c14.fit-failed-reported")
        ctx.notes["fit_error"] = f"{type(e).__name__}: {str(e)[:100]}"
        return
    _as_supplied()
    ctx.sample["fitted"] = [float(v) for v in dep.parameters.values()]


# ---- chains ---------------------------------------------------------
def _g_base(x, a, b):
    return a + b * x


def _g_mid(x, a, b, inner):
    return a + b * inner(x)


def _g_top(x, a, b, inner2):
    return a * inner2(x) + b


def _make_chain(length, start):
    from virocon import DependenceFunction

    g1 = DependenceFunction(_g_base)
    g1.parameters = dict(zip(g1.parameters.keys(), start[0]))
    g2 = DependenceFunction(_g_mid, inner=g1)
    g2.parameters = dict(zip(g2.parameters.keys(), start[1]))
    out = [g1, g2]
    if length == 3:
        g3 = DependenceFunction(_g_top, inner2=g2)
        g3.parameters = dict(zip(g3.parameters.keys(), start[2]))
        out.append(g3)
    return out


def _chain_data(length, rng, n=12):
    x = np.sort(rng.uniform(0.5, 10, n))
    t1 = (float(rng.uniform(0.5, 2)), float(rng.uniform(0.1, 0.6)))
    t2 = (float(rng.uniform(0.2, 1.5)), float(rng.uniform(0.5, 2.0)))
    t3 = (float(rng.uniform(0.5, 2.0)), float(rng.uniform(-1, 1)))
    y1 = t1[0] + t1[1] * x
    y2 = t2[0] + t2[1] * y1
    y3 = t3[0] * y2 + t3[1]
    ys = [y1, y2, y3][:length]
    ys = [y * (1 + 0.02 * rng.standard_normal(n)) for y in ys]
    return x, ys


def _check_trace(ctx, funcs, label):
    """Online rule over the recorded events: the last _fit of every dependent function comes after the last _fit of each
    of its conditioners and saw their final parameters."""
    ids = {id(f): i for i, f in enumerate(funcs)}
    if not any(ev[0] == "_fit-start" and ev[1] in ids for ev in TRACE):
        ctx.inconcl("no _fit event of these dependence functions was observed (trace monitor not reached)")
        return
    last_end = {}
    seen_params = {}
    for pos, ev in enumerate(TRACE):
        # a conditioner informs its dependents from INSIDE its own _fit (after its parameters are updated), so the
        # dependent's _fit is nested in the conditioner's: order is judged on the start events
        if ev[0] == "_fit-start" and ev[1] in ids:
            seen_params[ev[1]] = (pos, ev[2])
            last_end[ev[1]] = pos
    ok, why = True, None
    for f in funcs:
        for key, cond in f.dependent_parameters.items():
            if id(f) not in last_end or id(cond) not in last_end:
                ok, why = False, f"function {ids[id(f)]} or its conditioner was never fitted"
                continue
            if last_end[id(f)] < last_end[id(cond)]:
                ok, why = False, f"last fit of function {ids[id(f)]} precedes the last fit of its conditioner {ids[id(cond)]}"
            start_pos, seen = seen_params.get(id(f), (None, {}))
            if seen.get(key) != dict(cond.parameters):
                ok, why = False, f"last fit of function {ids[id(f)]} did not see the final parameters of conditioner {ids[id(cond)]}"
    ctx.check("c14.trace-order", ok, f"{label}: dependency order violated: {why}", events=[(e[0], ids.get(e[1])) for e in TRACE if e[1] in ids][:40])


def _g_comb(x, p, q, u_of_x, v_of_x):
    return p * u_of_x(x) + q * v_of_x(x) ** 2


def _g_sqrt(x, a, b):
    return a + b * np.sqrt(x)


def _make_dag(topo):
    """Three functions [f0, f1, f2] and the indices in a topological order."""
    from virocon import DependenceFunction

    A = DependenceFunction(_g_base)
    A.parameters = dict(zip(A.parameters.keys(), [1.0, 1.0]))
    if topo == "same-conditioner-twice":
        Bf = DependenceFunction(_g_sqrt)
        Bf.parameters = dict(zip(Bf.parameters.keys(), [1.0, 1.0]))
        C = DependenceFunction(_g_comb, u_of_x=A, v_of_x=A)
        C.parameters = dict(zip(C.parameters.keys(), [1.0, 1.0]))
        return [A, Bf, C]
    if topo == "two-conditioners":
        Bf = DependenceFunction(_g_sqrt)
        Bf.parameters = dict(zip(Bf.parameters.keys(), [1.0, 1.0]))
        C = DependenceFunction(_g_comb, u_of_x=A, v_of_x=Bf)
        C.parameters = dict(zip(C.parameters.keys(), [1.0, 1.0]))
        return [A, Bf, C]
    D1 = DependenceFunction(_g_mid, inner=A)
    D1.parameters = dict(zip(D1.parameters.keys(), [0.5, 0.5]))
    D2 = DependenceFunction(_g_top, inner2=A)
    D2.parameters = dict(zip(D2.parameters.keys(), [1.0, 0.0]))
    return [A, D1, D2]


def _dag_data(topo, rng, n=14):
    x = np.sort(rng.uniform(0.5, 10, n))
    a = (float(rng.uniform(0.5, 2)), float(rng.uniform(0.1, 0.6)))
    b = (float(rng.uniform(0.5, 2)), float(rng.uniform(0.3, 1.0)))
    yA = a[0] + a[1] * x
    if topo == "shared-conditioner":
        ys = [yA, float(rng.uniform(0.2, 1.5)) + float(rng.uniform(0.5, 2.0)) * yA, float(rng.uniform(0.5, 2.0)) * yA + float(rng.uniform(-1, 1))]
    else:
        yB = b[0] + b[1] * np.sqrt(x)
        p, q = float(rng.uniform(0.5, 2)), float(rng.uniform(0.05, 0.4))
        ys = [yA, yB, p * yA + q * (yA if topo == "same-conditioner-twice" else yB) ** 2]
    return x, [y * (1 + 0.02 * rng.standard_normal(n)) for y in ys]


def _dag(case, ctx):
    rng = np.random.default_rng(case["sub"])
    topo = case["topology"]
    ctx.cls("topology", topo)
    grid = np.linspace(0.5, 10, 9)
    funcs = _make_dag(topo)
    for label, order in (("first fit", case["call"]), ("re-fit", case["recall"])):
        x, ys = _dag_data(topo, rng)
        starts = [list(f.parameters.values()) for f in funcs]
        TRACE.clear()
        for i in order:
            funcs[i].fit(x, ys[i])
        _check_trace(ctx, funcs, f"{topo}, {label}")
        with M.quiet():
            ref = _make_dag(topo)
            for f, st in zip(ref, starts):
                f.parameters = dict(zip(f.parameters.keys(), st))
            for f, y in zip(ref, ys):  # [conditioners..., dependents] is a topological order in every wiring
                f.fit(x, y)
        for i, (f, r) in enumerate(zip(funcs, ref)):
            a, b = np.asarray(f(grid), float), np.asarray(r(grid), float)
            ctx.check("c14.chain-equals-topological", bool(np.all(np.abs(a - b) <= 1e-4 * np.abs(b) + 1e-9)), f"{topo}, {label}: a dependence function does not end up with the parameters of a fit after its conditioners", call_order=order, function=i, got=dict(f.parameters), reference=dict(r.parameters))
    ctx.nontrivial = True
    ctx.sample = {"kind": "dag", "topology": topo, "call_order": case["call"], "refit_order": case["recall"], "final": [dict(f.parameters) for f in funcs]}


def _topological_reference(length, start, x, ys):
    with M.quiet():
        ref = _make_chain(length, start)
        for f, y in zip(ref, ys):
            f.fit(x, y)
    return ref


def _chain(case, ctx):
    rng = np.random.default_rng(case["sub"])
    L = case["length"]
    ctx.cls("chain-length", L)
    start = [[1.0, 1.0], [0.5, 0.5], [1.0, 0.0]][:L]
    x1, ys1 = _chain_data(L, rng)
    x2, ys2 = _chain_data(L, rng)
    if int(case["sub"]) % 3 == 0:
        # the conditioner's data lie exactly on the curve of its START parameters: its fit returns them unchanged
        ys1[0] = start[0][0] + start[0][1] * x1
        ctx.cls("conditioner-data", "on-the-start-curve")
    funcs = _make_chain(L, start)
    # declaration order does not exist for stand-alone functions; 'decl' permutes the creation of the fit calls' data binding instead
    TRACE.clear()
    for i in case["call"]:
        funcs[i].fit(x1, ys1[i])
    _check_trace(ctx, funcs, "first fit")
    ref = _topological_reference(L, start, x1, ys1)
    grid = np.linspace(0.5, 10, 9)
    for i, (f, r) in enumerate(zip(funcs, ref)):
        a, b = np.asarray(f(grid), float), np.asarray(r(grid), float)
        ctx.check("c14.chain-equals-topological", bool(np.all(np.abs(a - b) <= 1e-4 * np.abs(b) + 1e-9)), "chained dependence function does not end up with the parameters of a fit after its conditioners", call_order=case["call"], function=i, got=dict(f.parameters), reference=dict(r.parameters))
    # re-fit on other data in another call order
    start2 = [list(f.parameters.values()) for f in ref]
    TRACE.clear()
    for i in case["recall"]:
        funcs[i].fit(x2, ys2[i])
    _check_trace(ctx, funcs, "re-fit")
    ref2 = _topological_reference(L, start2, x2, ys2)
    for i, (f, r) in enumerate(zip(funcs, ref2)):
        a, b = np.asarray(f(grid), float), np.asarray(r(grid), float)
        ctx.check("c14.chain-equals-topological", bool(np.all(np.abs(a - b) <= 1e-4 * np.abs(b) + 1e-9)), "re-fit: chained dependence function does not end up with the parameters of a fit after its conditioners on the NEW data", call_order=case["recall"], function=i, got=dict(f.parameters), reference=dict(r.parameters))
    ctx.nontrivial = True
    ctx.sample = {"kind": "chain", "length": L, "call_order": case["call"], "refit_order": case["recall"], "final": [dict(f.parameters) for f in funcs]}


def _cond_chain(case, ctx):
    """The predefined alpha3(d_of_x = logistics4) pair inside a ConditionalDistribution, declared in both orders."""
    from virocon import DependenceFunction, ExponentiatedWeibullDistribution
    from virocon.distributions import ConditionalDistribution

    rng = np.random.default_rng(case["sub"])

    def build(order):
        def _logistics4(x, a=1, b=1, c=-1, d=1):
            return a + b / (1 + np.exp(c * (x - d)))

        def _alpha3(x, a, b, c, d_of_x):
            return (a + b * x**c) / 2.0445 ** (1 / d_of_x(x))

        beta = DependenceFunction(_logistics4, [(0, None), (0, None), (None, 0), (0, None)])
        alpha = DependenceFunction(_alpha3, [(0, None), (0, None), (None, None)], d_of_x=beta)
        d = {"alpha": alpha, "beta": beta}
        return ConditionalDistribution(ExponentiatedWeibullDistribution(f_delta=5), {k: d[k] for k in order}), alpha, beta

    def data(seed):
        r = np.random.default_rng(seed)
        v = np.linspace(2, 24, 10)
        beta_t = 0.6 + 1.8 / (1 + np.exp(-0.25 * (v - 9)))
        alpha_t = (0.4 + 0.02 * v**1.9) / 2.0445 ** (1 / beta_t)
        out = []
        for a_, b_ in zip(alpha_t, beta_t):
            u = r.random(400)
            out.append(a_ * (-np.log1p(-(u ** (1 / 5)))) ** (1 / b_))
        return out, v, [(vv - 1, vv + 1) for vv in v]

    d1, v1, b1 = data(case["sub"])
    cd, alpha, beta = build(case["order"])
    TRACE.clear()
    cd.fit(d1, v1, b1, "mle", None)
    _check_trace(ctx, [beta, alpha], "conditional first fit")
    with M.quiet():
        cdr, ar, br = build(["beta", "alpha"])
        cdr.fit(d1, v1, b1, "mle", None)
    grid = np.linspace(2, 24, 8)
    for nm, f, r in (("alpha", alpha, ar), ("beta", beta, br)):
        a, b = np.asarray(f(grid), float), np.asarray(r(grid), float)
        ctx.check("c14.chain-equals-topological", bool(np.all(np.abs(a - b) <= 1e-4 * np.abs(b) + 1e-9)), "ConditionalDistribution.fit: result depends on the declaration order of chained parameters", declared=case["order"], parameter=nm, got=dict(f.parameters), reference=dict(r.parameters))
    # re-fit of the same object with the parameter dict in another order
    d2, v2, b2 = data(case["sub"] + 1)
    cd.conditional_parameters = {k: cd.conditional_parameters[k] for k in case["reorder"]}
    TRACE.clear()
    cd.fit(d2, v2, b2, "mle", None)
    _check_trace(ctx, [beta, alpha], "conditional re-fit")
    with M.quiet():
        cdr.conditional_parameters = {k: cdr.conditional_parameters[k] for k in ["beta", "alpha"]}
        cdr.fit(d2, v2, b2, "mle", None)
    for nm, f, r in (("alpha", alpha, ar), ("beta", beta, br)):
        a, b = np.asarray(f(grid), float), np.asarray(r(grid), float)
        ctx.check("c14.chain-equals-topological", bool(np.all(np.abs(a - b) <= 1e-3 * np.abs(b) + 1e-9)), "ConditionalDistribution re-fit: result depends on the order of chained parameters", declared=case["reorder"], parameter=nm, got=dict(f.parameters), reference=dict(r.parameters))
    ctx.nontrivial = True
    ctx.sample = {"kind": "conditional-chain", "declared": case["order"], "refit_declared": case["reorder"], "alpha": dict(alpha.parameters), "beta": dict(beta.parameters)}
