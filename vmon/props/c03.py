"""C03 - direct-sampling contour edges are (1-alpha)-quantile tangent lines of the sample."""
import math

import numpy as np

from .. import monitors as M
from .. import specs as S

ID = "C03"
LEVEL = "exploration"
DIVISORS = [d for d in range(1, 61) if 360 % d == 0]
RULE = (
    "case = (2-D sample: drawn from a random 2-D model or an arbitrary cloud - rounded values with ties, heavy tails, correlated, n = 50..1e5 -, "
    "alpha log-uniform in [1e-4,0.3], deg_step among ALL 19 divisors of 360 in [1,60]); plus model-drawn samples (n = int(100/alpha)). The monitor on "
    "supplied samples are float64, int64, int32 or float32 arrays. The monitor on DirectSamplingContour._compute infers the normal grid from the polygon and requires every vertex V_k to lie on the two tangent lines it joins, "
    "|V_k.n(theta) - Q(theta)| small, where Q is bracketed by the adjacent order statistics around (n-1)(1-alpha) (any standard empirical quantile is accepted); "
    "one surplus vertex that repeats its neighbour is tolerated, otherwise exactly 360/deg_step vertices are required; normals advance by exactly deg_step and cover the circle once. "
    "Non-trivial = n >= 50 and 360/deg_step >= 6; distinct = (sample seed, alpha, deg_step)."
    " Also: supplied samples in row-major, column-major, transposed and strided layouts (the caller's bytes are compared before/after)."
)
ASSUMPTIONS = [
    "empirical (1-alpha)-quantile = any value between the order statistics adjacent to (n-1)(1-alpha)",
    "vertex tolerance 1e-9*scale/sin(deg_step) (conditioning of the intersection of two lines)",
]
REQUIRED = ["c03.vertex-on-both-tangents", "c03.vertex-count", "c03.sample-size"]
CASE_TIMEOUT_S = 600


def gen_cases(tier, seed):
    rng = np.random.default_rng([seed, 3])
    cases = []
    reps = 3 if tier == "quick" else 60
    for r in range(reps):
        for ds in DIVISORS:
            cases.append(
                {
                    "kind": "cloud",
                    "deg_step": ds,
                    "alpha": float(10 ** rng.uniform(-4, math.log10(0.3))),
                    "n": int(np.exp(rng.uniform(math.log(50), math.log(1e5 if tier == "thorough" else 3e4)))),
                    "cloud": str(rng.choice(["model", "rounded", "heavy", "gauss-corr", "lattice"])),
                    "dtype": str(rng.choice(["float64", "float64", "float64", "int64", "int32", "float32"])),
                    "sub": int(rng.integers(1 << 31)),
                }
            )
    for r in range(6 if tier == "quick" else 60):
        cases.append({"kind": "drawn", "deg_step": int(rng.choice(DIVISORS)), "alpha": float(10 ** rng.uniform(-3.5, math.log10(0.3))), "sub": int(rng.integers(1 << 31))})
    # small, non-round alpha: several hundred thousand points are drawn
    for r in range(3 if tier == "quick" else 30):
        cases.append({"kind": "drawn", "deg_step": int(rng.choice([5, 10, 15, 30])), "alpha": float(rng.uniform(1.05e-4, 3.9e-4)), "sub": int(rng.integers(1 << 31)), "cost": 4})
    # round alphas with sample sizes for which the quantile position (1-alpha)*(n-1) is an exact integer, one below, one above
    qrng = np.random.default_rng([seed, 3, 9])
    for n_, a_ in ((101, 0.1), (51, 0.2), (65, 0.25), (201, 0.3), (1001, 0.01), (81, 0.05), (100, 0.1), (102, 0.1), (1000, 0.01), (21, 0.25)):
        cases.append({"kind": "cloud", "deg_step": int(qrng.choice([5, 10, 24, 45])), "alpha": a_, "n": n_, "cloud": ["model", "gauss-corr", "heavy"][n_ % 3], "dtype": "float64", "sub": int(qrng.integers(1 << 31))})
    return cases


def _bracket(z, alpha):
    n = z.size
    zs = np.sort(z)
    h = (n - 1) * (1 - alpha)
    lo = int(math.floor(h + 1e-9))
    hi = int(math.ceil(h - 1e-9))
    lo, hi = max(0, min(n - 1, lo - 0)), max(0, min(n - 1, hi))
    # accept the neighbouring definitions too (n*(1-alpha), (n+1)*(1-alpha) based): one order statistic either side
    lo = max(0, lo - 1)
    hi = min(n - 1, hi + 1)
    return float(zs[lo]), float(zs[hi])


def _post(call):
    c = M.current()
    if c is None or call.exc is not None:
        return
    con = call.self
    sample = np.asarray(con.sample, float)
    alpha, ds = con.alpha, con.deg_step
    V = np.asarray(con.coordinates, float)
    N = int(round(360 / ds))
    info = {"alpha": alpha, "deg_step": ds, "n_sample": int(sample.shape[0]), "n_vertices_returned": int(V.shape[0])}
    if V.ndim != 2 or V.shape[1] != 2 or not np.all(np.isfinite(V)):
        c.check("c03.vertex-count", False, "direct-sampling coordinates are not a finite (N, 2) array", **info)
        return
    # One surplus vertex that merely repeats its predecessor (or the first vertex) adds a zero-length edge and
    # no normal: not what the property forbids. Coincident vertices elsewhere (concurrent tangents under ties)
    # are legitimate polygon vertices and stay.
    scale0 = float(max(np.max(np.abs(sample)), 1e-12))
    W = V
    if len(V) == N + 1 and (np.allclose(V[-1], V[-2], rtol=0, atol=1e-9 * scale0) or np.allclose(V[-1], V[0], rtol=0, atol=1e-9 * scale0)):
        W = V[:-1]
        c.count("c03.surplus-repeated-vertex-dropped")
    c.check("c03.vertex-count", len(W) == N, "the polygon does not have 360/deg_step vertices", expected=N, got=int(len(W)), **info)
    if len(W) != N or N < 3:
        return
    x, y = sample[:, 0], sample[:, 1]
    scale = float(max(np.max(np.abs(sample)), 1e-12))
    step = math.radians(ds)
    tol = 1e-9 * scale / max(math.sin(step), 1e-3) + 1e-12 * scale
    # infer the grid: find theta0 and orientation from the first non-degenerate edge
    found = None
    candidates = []
    for k in range(N):
        dvec = W[(k + 1) % N] - W[k]
        if np.hypot(*dvec) > 1e-7 * scale:
            for sgn in (+1, -1):
                # outward normal of the edge from W[k] to W[k+1]
                nrm = np.array([dvec[1], -dvec[0]]) * sgn / np.hypot(*dvec)
                th = math.atan2(nrm[1], nrm[0])
                lo, hi = _bracket(x * nrm[0] + y * nrm[1], alpha)
                off = float(W[k] @ nrm)
                if lo - tol * 1e3 <= off <= hi + tol * 1e3:
                    found = found or (k, th)
                    candidates.append((k, th))
            if len(candidates) >= 16:
                break
    if not found:
        c.check("c03.vertex-on-both-tangents", False, "no edge of the polygon is a (1-alpha)-quantile tangent line of the sample", **info)
        return
    # under heavy ties (a sample rounded to a few integer levels) the bracket of an edge is wide and the FIRST matching
    # edge may suggest a wrong grid: every candidate anchor is tried, the polygon is judged with the best one
    best = None
    for k0, th0 in candidates:
      if best is not None and best[0] == 0:
        break
      for orient in (-1, +1):
          worst = 0.0
          wit = None
          nbad = 0
          # explicit: edge e_j = (W[j] -> W[j+1]) has normal phi_j = th0 + orient*(j-k0)*step
          for j in range(N):
              for phi in (th0 + orient * (j - k0) * step, th0 + orient * (j - 1 - k0) * step):
                  nx_, ny_ = math.cos(phi), math.sin(phi)
                  lo, hi = _bracket(x * nx_ + y * ny_, alpha)
                  off = W[j, 0] * nx_ + W[j, 1] * ny_
                  dev = max(lo - off, off - hi, 0.0)
                  if dev > tol:
                      nbad += 1
                      if dev > worst:
                          worst = dev
                          wit = {"vertex_index": j, "vertex": W[j].tolist(), "normal_deg": math.degrees(phi) % 360, "offset": off, "quantile_bracket": [lo, hi]}
          if best is None or nbad < best[0]:
              best = (nbad, worst, wit, orient, k0, th0)
    nbad, worst, wit, orient, k0, th0 = best
    c.count("c03.vertices-judged", N)
    mech = None
    if nbad:
        mech = _closing_mechanism(V, W, x, y, alpha, ds, th0, k0, orient, tol)
    c.check(
        "c03.vertex-on-both-tangents",
        nbad == 0,
        "a polygon vertex does not lie on the two (1-alpha)-quantile tangent lines it joins (normals advancing by deg_step)",
        mech,
        n_bad_vertex_line_pairs=nbad,
        worst_deviation=worst,
        witness=wit,
        tolerance=tol,
        **info,
    )


def _closing_mechanism(V, W, x, y, alpha, ds, th0, k0, orient, tol):
    """Predicate of the (fixed) finding: every vertex is correct except the LAST returned one, which is the
    'intersection' of the first tangent line with itself (0/0 noise) instead of the closing vertex."""
    N = len(W)
    step = math.radians(ds)
    bad_idx = set()
    for j in range(N):
        for phi in (th0 + orient * (j - k0) * step, th0 + orient * (j - 1 - k0) * step):
            nx_, ny_ = math.cos(phi), math.sin(phi)
            lo, hi = _bracket(x * nx_ + y * ny_, alpha)
            off = W[j, 0] * nx_ + W[j, 1] * ny_
            if max(lo - off, off - hi, 0.0) > tol:
                bad_idx.add(j)
    if bad_idx == {N - 1}:
        return "ds-closing-vertex-is-self-intersection-of-one-line"
    return None


def _post_init(call):
    c = M.current()
    if c is None or call.exc is not None:
        return
    con = call.self
    given_sample = call.kwargs.get("sample") if "sample" in call.kwargs else (call.args[4] if len(call.args) > 4 else None)
    given_n = call.kwargs.get("n") if "n" in call.kwargs else (call.args[2] if len(call.args) > 2 else None)
    if given_sample is None and given_n is None:
        c.check("c03.sample-size", len(con.sample) == int(100 / con.alpha), "no sample supplied: the number of points drawn is not int(100/alpha)", got=int(len(con.sample)), want=int(100 / con.alpha), alpha=con.alpha)
    elif given_sample is None:
        c.check("c03.sample-size", len(con.sample) == given_n, "n supplied: the number of points drawn is not n", got=int(len(con.sample)), want=given_n)


_DONE = [False]


def install():
    if _DONE[0]:
        return
    _DONE[0] = True
    from virocon import DirectSamplingContour

    M.wrap(DirectSamplingContour, "_compute", post=_post, tag="c03")
    M.wrap(DirectSamplingContour, "__init__", post=_post_init, tag="c03")


class _Dummy2D:
    n_dim = 2


def _cloud(case, rng):
    n, kind = case["n"], case["cloud"]
    if kind == "model":
        spec = S.gen_spec(rng, structure=[None, 0], nonneg=True, allow_hostile=False)
        return S.RefModel(spec).sample(n, rng)
    if kind == "rounded":
        a = rng.weibull(1.5, n) * 3
        b = np.exp(0.5 + 0.3 * a + 0.2 * rng.standard_normal(n))
        return np.c_[np.round(a, 1), np.round(b, 1)]
    if kind == "heavy":
        return np.c_[rng.standard_t(3, n), rng.standard_t(2.5, n) * 2 + 1]
    if kind == "gauss-corr":
        z = rng.standard_normal((n, 2))
        return np.c_[5 + 2 * z[:, 0], -3 + 1.5 * (0.8 * z[:, 0] + 0.6 * z[:, 1])]
    g = rng.integers(0, 7, (n, 2)).astype(float)
    return g * np.array([0.5, 2.0])


def run_case(case, ctx):
    from virocon import DirectSamplingContour

    rng = np.random.default_rng(case["sub"])
    ctx.cls("deg_step", case["deg_step"])
    if case["kind"] == "cloud":
        ctx.cls("cloud", case["cloud"])
        sample = _cloud(case, rng)
        sample = sample[np.all(np.isfinite(sample), axis=1)]
        # a supplied sample may be stored as integers (counts, binned data) or single precision
        dt = case.get("dtype", "float64")
        ctx.cls("sample-dtype", dt)
        if dt.startswith("int"):
            sample = np.round(sample * (1.0 if np.ptp(sample) > 30 else 10.0)).astype(dt)
        elif dt == "float32":
            sample = sample.astype(np.float32)
        # memory layout of the caller's array: row-major, column-major (np.array([x, y]).T, DataFrame.to_numpy()), a strided view
        layout = ["C", "F", "transposed", "strided-view"][int(case["sub"]) % 4]
        ctx.cls("sample-layout", layout)
        if layout == "F":
            sample = np.asfortranarray(sample)
        elif layout == "transposed":
            sample = np.array([sample[:, 0], sample[:, 1]]).T
        elif layout == "strided-view":
            wide = np.zeros((sample.shape[0], 2 * sample.shape[1]), dtype=sample.dtype)
            wide[:, ::2] = sample
            sample = wide[:, ::2]  # the same values, every second column of a wider array
        pristine = sample.copy()
        con = DirectSamplingContour(_Dummy2D(), case["alpha"], deg_step=case["deg_step"], sample=sample)
        ctx.check("c03.sample-untouched", (con.sample is sample or np.array_equal(con.sample, pristine)) and sample.shape == pristine.shape and sample.tobytes() == pristine.tobytes(), "the supplied sample was replaced or modified in place", layout=layout, dtype=str(sample.dtype))
        ctx.nontrivial = sample.shape[0] >= 50 and 360 // case["deg_step"] >= 6
        ctx.sample = {"cloud": case["cloud"], "n": int(sample.shape[0]), "alpha": case["alpha"], "deg_step": case["deg_step"], "first_vertices": np.asarray(con.coordinates)[:3].tolist()}
    else:
        ctx.cls("cloud", "drawn-by-contour")
        spec = S.gen_spec(rng, structure=[None, 0], nonneg=True, allow_hostile=False)
        model = S.build_virocon(spec)
        # which kind of model draws the sample: a hierarchical model, or a transformed model with its own Monte-Carlo
        # settings (precision_factor, random_state) - the sample size of the contour is int(100/alpha) either way
        mk = int(case["sub"]) % 4
        if mk in (1, 3) and case["alpha"] >= 1e-3:
            from . import c16

            pf = [0.2, 3.0][mk // 2]
            model, _ = c16.build_transformed(c16.hs_s_spec(rng, "random"), precision_factor=pf, random_state=[None, 7][mk // 2])
            ctx.cls("drawing-model", f"transformed(precision_factor={pf})")
        else:
            ctx.cls("drawing-model", "hierarchical")
        con = DirectSamplingContour(model, case["alpha"], deg_step=case["deg_step"])
        ctx.nontrivial = True
        ctx.sample = {"cloud": "drawn", "alpha": case["alpha"], "deg_step": case["deg_step"], "n": int(len(con.sample))}
    ctx.sig = f"{case['kind']}|{case['sub']}|{case['alpha']:.5g}|{case['deg_step']}"
