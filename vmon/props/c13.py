"""C13 - exponentiated-Weibull least squares = weighted quantile regression, any weights."""
import math

import numpy as np

from .. import monitors as M

ID = "C13"
LEVEL = "exploration"
RULE = (
    "case = (positive sample of 30..5000 points from a random family, optionally with zeros and rounding ties, weight specification in "
    "{None, 'linear', 'quadratic', 'cubic', positive array} x scaling constant, delta fixed or free, method 'lsq'|'wlsq', row order). "
    "A monitor on ExponentiatedWeibullDistribution.fit compares (alpha, beta) with an independent weighted regression (numpy lstsq with sqrt-weights) "
    "of log10 x_i on log10(-ln(1-p_i^(1/delta))), p_i=(i-0.5)/n; the driver repeats each fit with rescaled weights, permuted rows and the other "
    "method name. Free delta: local minimality of the harness's own x-space weighted error. Non-trivial = weights not already normalised or data "
    "unsorted or zeros present; distinct = (sample seed, weights, scaling, delta mode, method)."
    ' Also: the same fits requested through GlobalHierarchicalModel.fit with per-dimension fit descriptions (weights omitted / None / given).'
)
ASSUMPTIONS = [
    "'zero observations are ignored' is accepted under both readings: plotting positions from the full sample (zeros keep their ranks) or from the positive part",
    "free delta is judged to the termination tolerance documented for scipy.optimize.fmin (xtol = ftol = 1e-4)",
    "numpy.linalg.lstsq",
]
REQUIRED = ["c13.regression", "c13.weight-scaling", "c13.order", "c13.method-names", "c13.delta-local-min"]
CASE_TIMEOUT_S = 300


def gen_cases(tier, seed):
    rng = np.random.default_rng([seed, 13])
    n_cases = 160 if tier == "quick" else 4000
    cases = []
    wk = [None, "linear", "quadratic", "cubic", "array", "array"]
    for i in range(n_cases):
        cases.append(
            {
                "sub": int(rng.integers(1 << 31)),
                "n": int(rng.choice([30, 100, 400, 1500, 5000], p=[0.2, 0.3, 0.25, 0.15, 0.1])),
                "source": str(rng.choice(["expweib", "weibull", "lognormal", "gamma"])),
                "zeros": bool(rng.random() < 0.3),
                "round": [None, 1, 2][int(rng.integers(3))],
                "weights": wk[i % len(wk)],
                "wscale": float(10 ** rng.uniform(-3, 3)),
                "delta": None if i % 3 == 0 else float(np.exp(rng.uniform(math.log(0.3), math.log(8)))),
                "method": "lsq" if i % 2 else "wlsq",
                "order": str(rng.choice(["shuffled", "sorted", "reversed"])),
            }
        )
    # the same fits requested through a joint model: per-dimension fit descriptions (method, weights - possibly omitted)
    jrng = np.random.default_rng([seed, 13, 9])
    for i in range(10 if tier == "quick" else 150):
        cases.append({"kind": "joint", "sub": int(jrng.integers(1 << 31)), "n": int(jrng.choice([3000, 8000])), "w0": [None, "linear", "quadratic", "cubic", "omitted"][i % 5], "w1": ["omitted", None, "quadratic", "omitted", "linear"][(i // 2) % 5], "m0": ["wlsq", "lsq", "WLSQ", "Lsq"][i % 4], "m1": ["lsq", "wlsq", "LSQ", "Wlsq"][(i // 3) % 4], "delta1": [None, 2.0][(i // 2) % 2]})
    return cases


def _joint(case, ctx):
    """EW least squares asked for through GlobalHierarchicalModel.fit: every dimension is fitted with the weights its OWN
    description declares (a description without a weights key means plain least squares)."""
    from virocon import DependenceFunction, ExponentiatedWeibullDistribution as EW, GlobalHierarchicalModel, WidthOfIntervalSlicer

    rng = np.random.default_rng(case["sub"])
    n = case["n"]
    x0 = 2.0 * rng.weibull(1.6, n) + 0.05
    x1 = (1.0 + 0.8 * np.sqrt(x0)) * rng.weibull(2.2, n) + 0.02
    X = np.c_[x0, x1]

    def lin(x, a=1.0, b=0.5):
        return a + b * x

    kw1 = {} if case["delta1"] is None else {"f_delta": case["delta1"]}
    descs = [
        {"distribution": EW(f_delta=1.5), "intervals": WidthOfIntervalSlicer(1.0, min_n_points=100)},
        {"distribution": EW(**kw1), "conditional_on": 0, "parameters": {"alpha": DependenceFunction(lin), "beta": DependenceFunction(lin)}},
    ]
    if case["delta1"] is None:

        def const(x, c=2.0):
            return c + 0 * x

        descs[1]["parameters"]["delta"] = DependenceFunction(const)
    fds = []
    for m, w in ((case["m0"], case["w0"]), (case["m1"], case["w1"])):
        fd = {"method": m}
        if w != "omitted":
            fd["weights"] = w
        fds.append(fd)
    ctx.cls("entry", "joint-model")
    ctx.cls("weights", f"{case['w0']}/{case['w1']}")
    ctx.sig = f"joint|{case['sub']}|{case['w0']}|{case['w1']}|{case['m0']}|{case['m1']}|{case['delta1']}"
    ctx.nontrivial = True
    model = GlobalHierarchicalModel(descs)
    try:
        model.fit(X, fit_descriptions=fds)
    except RuntimeError as e:
        if "Failed to fit dependence function" in str(e):
            ctx.count("c13.joint-dependence-fit-failed-reported")
        else:
            raise
    declared = [None if w == "omitted" else w for w in (case["w0"], case["w1"])]
    # dimension 0: the marginal fit
    d0 = model.distributions[0]
    xs = np.sort(x0)
    ra, rb = ref_alpha_beta(float(d0.delta), xs, _weights_for(declared[0], xs, None))
    ctx.check("c13.joint-declared-weights", _close(float(d0.alpha), ra, 1e-6) and _close(float(d0.beta), rb, 1e-6), "joint fit, dimension 0: (alpha, beta) is not the regression with the weights declared for that dimension", declared=declared[0], got=[float(d0.alpha), float(d0.beta)], want=[float(ra), float(rb)])
    # dimension 1: every interval
    d1 = model.distributions[1]
    bad = None
    for k, (rows, est) in enumerate(zip(getattr(d1, "data_intervals", []), getattr(d1, "parameters_per_interval", []))):
        xs = np.sort(np.asarray(rows, float))
        ra, rb = ref_alpha_beta(float(est["delta"]), xs, _weights_for(declared[1], xs, None))
        ctx.count("c13.joint-intervals")
        if not (_close(float(est["alpha"]), ra, 1e-6) and _close(float(est["beta"]), rb, 1e-6)):
            bad = {"interval": k, "got": [float(est["alpha"]), float(est["beta"])], "want": [float(ra), float(rb)], "delta": float(est["delta"])}
            break
    ctx.check("c13.joint-declared-weights", bad is None and len(getattr(d1, "parameters_per_interval", [])) > 0, "joint fit, dimension 1: a per-interval (alpha, beta) is not the regression with the weights declared for that dimension", declared=declared[1], declared_for_dimension_0=declared[0], witness=bad)
    ctx.sample = {"kind": "joint", "n": n, "fit_descriptions": fds}


# ----------------------------------------------------------------------
# independent reference
# ----------------------------------------------------------------------
def _weights_for(spec, x_sorted, w_array_sorted):
    if spec is None:
        return np.ones_like(x_sorted)
    if spec == "linear":
        return x_sorted.copy()
    if spec == "quadratic":
        return x_sorted**2
    if spec == "cubic":
        return x_sorted**3
    return w_array_sorted


def _L(p, delta):
    """-ln(1 - p^(1/delta)) of the documented relation, evaluated without cancellation at either end
    (y = p^(1/delta) below 1e-16: 1 - y rounds to 1; y next to 1 for a huge delta: 1 - y loses all digits)."""
    with np.errstate(all="ignore"):
        t = np.log(p) / delta  # ln y  (< 0)
        return np.where(t > -np.log(2.0), -np.log(-np.expm1(t)), -np.log1p(-np.exp(t)))


def ref_alpha_beta(delta, xs, w, reading="full", noise=None):
    n = xs.size
    pos = xs > 0
    if reading == "full":
        p = ((np.arange(1, n + 1) - 0.5) / n)[pos]
    else:
        k = int(pos.sum())
        p = (np.arange(1, k + 1) - 0.5) / k
    X = np.log10(xs[pos])
    with np.errstate(all="ignore"):
        L = _L(p, delta)
        if noise is not None:
            # what the relation evaluated AS WRITTEN in doubles cannot resolve: 1 - y carries an absolute rounding error
            # of a few 1e-16, i.e. L moves by that over (1 - y) = exp(-L)
            L = L + noise[: L.size] * 4e-16 * np.exp(L)
        P = np.log10(L)
    ww = w[pos]
    ok = np.isfinite(P) & np.isfinite(X) & (ww > 0)
    sw = np.sqrt(ww[ok] / np.max(ww[ok]))
    A = np.c_[np.ones(ok.sum()), P[ok]] * sw[:, None]
    sol, *_ = np.linalg.lstsq(A, X[ok] * sw, rcond=None)
    a, b = sol
    return 10**a, 1 / b


def conditioning(delta, xs, w, reading, ra, rb):
    """Relative change of the reference (alpha, beta) under the rounding the documented relation has in doubles."""
    rng = np.random.default_rng(12345)
    da = db = 0.0
    for _ in range(8):
        try:
            a2, b2 = ref_alpha_beta(delta, xs, w, reading, noise=rng.uniform(-1, 1, xs.size))
        except Exception:  # noqa: BLE001
            return np.inf, np.inf
        if not (np.isfinite(a2) and np.isfinite(b2)):
            return np.inf, np.inf
        da = max(da, abs(a2 - ra) / max(abs(ra), 1e-300))
        db = max(db, abs(b2 - rb) / max(abs(rb), 1e-300))
    return da, db


def ref_error(delta, xs, w):
    alpha, beta = ref_alpha_beta(delta, xs, w)
    n = xs.size
    pos = xs > 0
    p = ((np.arange(1, n + 1) - 0.5) / n)[pos]
    with np.errstate(all="ignore"):
        xh = alpha * _L(p, delta) ** (1 / beta)
    return float(np.sum(w[pos] * (xs[pos] - xh) ** 2))


def at_underflow_edge(x, delta):
    """The returned delta sits where p_min^(1/delta') underflows for a delta' 5 % smaller: the optimiser ran towards
    delta -> 0 until the relation had log10(0) in it (mechanism of the known finding ew-lsq-free-delta-at-underflow-edge)."""
    xs = np.sort(np.asarray(x, float))
    pos = xs > 0
    if not np.any(pos):
        return False
    pmin = ((np.arange(1, xs.size + 1) - 0.5) / xs.size)[pos][0]
    with np.errstate(all="ignore"):
        return bool(np.exp(np.log(pmin) / (delta / 1.05)) < 2.3e-308)


def _close(a, b, rel):
    return abs(a - b) <= rel * max(abs(a), abs(b), 1e-300)


# ----------------------------------------------------------------------
# monitor on the real fit
# ----------------------------------------------------------------------
def _post_fit(call):
    c = M.current()
    if c is None:
        return
    d = call.self
    args = list(call.args)
    data = args[0] if args else call.kwargs.get("data")
    method = args[1] if len(args) > 1 else call.kwargs.get("method", "mle")
    weights = args[2] if len(args) > 2 else call.kwargs.get("weights")
    if str(method).lower() not in ("lsq", "wlsq"):
        return
    if call.exc is not None:
        if isinstance(call.exc, NotImplementedError):
            c.count("c13.not-implemented-subset")
            return
        c.check("c13.fit-raised", False, f"EW {method} fit raised {type(call.exc).__name__}", message=str(call.exc)[:200], weights=weights if isinstance(weights, str) or weights is None else "array")
        return
    data = np.asarray(data, float)
    order = np.argsort(data, kind="stable")
    xs = data[order]
    warr = None
    if weights is not None and not isinstance(weights, str):
        warr = np.asarray(weights, float)[order]
    w = _weights_for(weights.lower() if isinstance(weights, str) else weights if weights is None else "array", xs, warr)
    delta = float(d.delta)
    got = (float(d.alpha), float(d.beta))
    info = {"n": int(xs.size), "weights": weights if (weights is None or isinstance(weights, str)) else "array", "delta": delta, "method": method, "zeros": int(np.sum(xs == 0))}
    if not (np.isfinite(got[0]) and np.isfinite(got[1])):
        c.check("c13.regression", False, "EW least squares returned non-finite alpha/beta", got=got, **info)
        return
    okk = False
    refs = {}
    for reading in ("full", "positive"):
        try:
            ra, rb = ref_alpha_beta(delta, xs, w, reading)
        except Exception:  # noqa: BLE001
            continue
        refs[reading] = (float(ra), float(rb))
        if _close(got[0], ra, 1e-7) and _close(got[1], rb, 1e-7):
            okk = True
        elif not okk:
            # ill-conditioned delta (1 - p^(1/delta) cancels): judged within the conditioning of the relation in doubles
            da, db = conditioning(delta, xs, w, reading, ra, rb)
            if np.isfinite(da) and _close(got[0], ra, 1e-7 + 4 * da) and _close(got[1], rb, 1e-7 + 4 * db):
                okk = True
                c.count("c13.regression.judged-within-conditioning")
            elif not np.isfinite(da):
                c.count("c13.regression.conditioning-unbounded")
    mech = None
    if not okk:
        mech = _classify(xs, w, delta, got, warr, data, weights)
    c.check("c13.regression", okk, "EW least squares: (alpha, beta) is not the weighted quantile regression for the delta in force", mech, got=got, reference=refs, **info)
    if d.f_delta is None:
        # free delta: local minimiser of the x-space weighted error (harness's own error function)
        try:
            e0 = ref_error(delta, xs, w / np.sum(w))
            e1 = ref_error(delta * 1.01, xs, w / np.sum(w))
            e2 = ref_error(delta / 1.01, xs, w / np.sum(w))
            slack = 2e-4 + 1e-7 * abs(e0)
            okmin = e0 <= min(e1, e2) + slack
            mech2 = None
            if not okmin:
                # known finding: the optimiser ran into the region where p_min^(1/delta) underflows (the relation has
                # log10(0) there in doubles) and stopped at its edge, the error still decreasing towards smaller delta
                if at_underflow_edge(xs, delta) and not (e1 + slack < e0):
                    mech2 = "ew-lsq-free-delta-at-underflow-edge"
                elif delta > 1e6:
                    # known finding: the error keeps decreasing towards delta -> infinity (log-Gumbel limit, convergence
                    # like 1/ln delta): the simplex search doubles delta until its iteration limit and returns that
                    wn = w / np.sum(w)
                    e10, e1000 = ref_error(delta * 10, xs, wn), ref_error(delta * 1000, xs, wn)
                    # (monotone over a decade; three decades further the regression itself is ill-conditioned - P is nearly
                    #  constant in i - so the far value only has to stay below the value at the returned delta)
                    if e2 >= e0 >= e1 >= e10 and e1000 <= e0 * (1 + 1e-3):
                        mech2 = "ew-lsq-free-delta-runs-to-infinity"
                    elif max(abs(e1 - e0), abs(e2 - e0)) <= 1e-5 * abs(e0) and abs(e10 - e0) <= 1e-3 * abs(e0):
                        # the same runaway, seen where the valley is flat to 1e-5 (the reference itself resolves no slope
                        # there): the search ended at its iteration limit, not at a minimiser
                        mech2 = "ew-lsq-free-delta-runs-to-infinity"
            c.check("c13.delta-local-min", okmin, "EW least squares: free delta is not a local minimiser of the weighted quantile error", mech2, e_at=e0, e_up=e1, e_down=e2, **info)
        except Exception as e:  # noqa: BLE001
            c.inconcl(f"reference error function failed: {e}")


def _classify(xs, w, delta, got, warr, data, weights):
    """Mechanism predicates of the (fixed) findings."""
    # (1) closed form evaluated with weights that do not sum to one
    pos = xs > 0
    n = xs.size
    p = ((np.arange(1, n + 1) - 0.5) / n)[pos]
    x_, w_ = xs[pos], w[pos]
    try:
        with np.errstate(all="ignore"):
            xs_ = np.log10(x_)
            ps_ = np.log10(-np.log(1 - p ** (1 / delta)))
            for wv in (w_, w_ / np.sum(w)):
                pb, xb = np.sum(wv * ps_), np.sum(wv * xs_)
                dividend = np.sum(wv * ps_ * xs_) - pb * xb
                divisor = np.sum(wv * ps_**2) - pb**2
                b = dividend / divisor
                a = xb - b * pb
                if _close(got[0], 10**a, 1e-6) and _close(got[1], divisor / dividend, 1e-6) and abs(np.sum(wv) - 1) > 1e-9:
                    return "ew-lsq-weights-not-normalised"
    except Exception:  # noqa: BLE001
        pass
    # (2) array weights applied in the original (unsorted) order
    if warr is not None and not np.array_equal(np.sort(data, kind="stable"), data):
        try:
            wu = np.asarray(weights, float)
            ra, rb = ref_alpha_beta(delta, xs, wu, "full")
            if _close(got[0], ra, 1e-6) and _close(got[1], rb, 1e-6):
                return "ew-lsq-array-weights-not-sorted-with-data"
        except Exception:  # noqa: BLE001
            pass
    return None


_DONE = [False]


def install():
    if _DONE[0]:
        return
    _DONE[0] = True
    from virocon import ExponentiatedWeibullDistribution
    from virocon.distributions import Distribution

    M.wrap(Distribution, "fit", post=_post_fit, tag="c13")


def _sample(case, rng):
    n, src = case["n"], case["source"]
    if src == "expweib":
        a, b, dl = np.exp(rng.uniform(-1, 2)), rng.uniform(0.7, 3), np.exp(rng.uniform(-0.7, 1.6))
        x = a * (-np.log1p(-rng.random(n) ** (1 / dl))) ** (1 / b)
    elif src == "weibull":
        x = rng.weibull(rng.uniform(0.8, 3), n) * np.exp(rng.uniform(-1, 2.5))
    elif src == "lognormal":
        x = rng.lognormal(rng.uniform(-1, 2), rng.uniform(0.1, 0.8), n)
    else:
        x = rng.gamma(rng.uniform(1, 5), np.exp(rng.uniform(-1, 1.5)), n)
    if case["round"] is not None:
        x = np.round(x, case["round"])
    if case["zeros"]:
        k = max(1, int(0.03 * n))
        x[rng.choice(n, k, replace=False)] = 0.0
    else:
        x = np.where(x <= 0, 10.0 ** -(case["round"] or 3), x)
    # units as an input class: the same observations in femto-units (positive values below machine epsilon are still
    # observations) or mega-units
    unit = [1.0, 1.0, 1e-16, 1.0, 1e6, 1e-9][int(case["sub"]) % 6]
    if unit != 1.0:
        x = x * unit
    if case["order"] == "sorted":
        x = np.sort(x)
    elif case["order"] == "reversed":
        x = np.sort(x)[::-1].copy()
    return x


def run_case(case, ctx):
    from virocon import ExponentiatedWeibullDistribution as EW

    if case.get("kind") == "joint":
        return _joint(case, ctx)

    rng = np.random.default_rng(case["sub"])
    x = _sample(case, rng)
    n = x.size
    wspec = case["weights"]
    warr = None
    if wspec == "array":
        if np.unique(x).size < n:
            # tied observations: per-observation weights would make the regression depend on the arbitrary order
            # of equal values, so the weights are a function of the value (equal for ties)
            warr = (0.3 + x) ** float(rng.uniform(0.5, 2.5)) * float(rng.uniform(0.2, 3.0))
        else:
            warr = rng.uniform(0.2, 3.0, n) * (1 + x)  # positive, per observation
        # shapes of weight arrays other than "growing with x": both tails down-weighted, a few integer classes
        wshape = int(case["sub"]) % 3
        if wshape:
            uq = np.unique(x)
            r = np.searchsorted(uq, x) / max(len(uq) - 1, 1)
            warr = (0.2 + np.sin(math.pi * r)) * 1.7 if wshape == 1 else np.array([1.0, 3.0, 2.0, 3.0, 1.0])[np.minimum((r * 5).astype(int), 4)]
            ctx.cls("weight-array", ["growing", "tapered-tails", "integer-classes"][wshape])
    w_in = warr if wspec == "array" else wspec
    kw = {} if case["delta"] is None else {"f_delta": case["delta"]}
    method = case["method"]
    ctx.cls("weights", wspec)
    ctx.cls("delta", "free" if case["delta"] is None else "fixed")
    ctx.cls("source", case["source"])
    ctx.cls("order", case["order"])
    ctx.cls("zeros", case["zeros"])
    ctx.sig = f"{case['sub']}|{wspec}|{case['delta']}|{method}"
    ctx.nontrivial = wspec in (None, "array") or case["zeros"] or case["order"] != "sorted"
    ctx.sample = {"n": n, "source": case["source"], "weights": wspec, "wscale": case["wscale"], "delta": case["delta"], "method": method, "order": case["order"], "zeros": int(np.sum(x == 0)), "head": x[:5].tolist()}

    def fit(data, weights, meth=method):
        d = EW(**kw)
        d.fit(data, meth, weights)
        return np.array([d.alpha, d.beta, d.delta], float)

    base = fit(x, w_in)
    if not np.all(np.isfinite(base)):
        return
    rel = 1e-9 if case["delta"] is not None else 2e-3
    # a free delta that ran into the underflow edge (known finding) stops at an erratic place: same mechanism
    edge = "ew-lsq-free-delta-at-underflow-edge" if (case["delta"] is None and at_underflow_edge(x, float(base[2]))) else None
    # scaling of the weights
    if wspec == "array":
        sc = fit(x, warr * case["wscale"])
        ctx.check("c13.weight-scaling", bool(np.all(np.abs(sc - base) <= rel * np.abs(base))), "EW least squares: result changes when the weights are multiplied by a constant", edge, base=base.tolist(), scaled=sc.tolist(), factor=case["wscale"])
    if wspec is None:
        sc = fit(x, np.full(n, case["wscale"]))
        ctx.check("c13.weight-scaling", bool(np.all(np.abs(sc - base) <= rel * np.abs(base))), "EW least squares: weights=None differs from constant weights", edge, base=base.tolist(), scaled=sc.tolist(), factor=case["wscale"])
    if isinstance(wspec, str) and wspec != "array":
        expo = {"linear": 1, "quadratic": 2, "cubic": 3}[wspec]
        sc = fit(x, case["wscale"] * x**expo)
        ctx.check("c13.weight-scaling", bool(np.all(np.abs(sc - base) <= max(rel, 1e-7) * np.abs(base))), f"EW least squares: weights='{wspec}' differs from the array c*x^{expo}", edge, base=base.tolist(), scaled=sc.tolist(), factor=case["wscale"])
    # order of the rows (weights permuted together with the data)
    perm = rng.permutation(n)
    pw = warr[perm] if wspec == "array" else w_in
    po = fit(x[perm], pw)
    ctx.check("c13.order", bool(np.all(np.abs(po - base) <= rel * np.abs(base))), "EW least squares: result depends on the order of the data", edge, base=base.tolist(), permuted=po.tolist(), weights=wspec)
    # both method names
    other = fit(x, w_in, "wlsq" if method == "lsq" else "lsq")
    ctx.check("c13.method-names", bool(np.all(other == base) or np.all(np.abs(other - base) <= 1e-12 * np.abs(base))), "EW least squares: 'lsq' and 'wlsq' give different results", base=base.tolist(), other=other.tolist())
