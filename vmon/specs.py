"""Serialisable model specifications, their virocon build and their reference model
(DESIGN 2.3).

A spec is plain JSON:

  {"dims": [
     {"fam": "weibull", "params": {"alpha": 2.7, "beta": 1.4, "gamma": 0.9}},
     {"fam": "lognormal", "cond": 0,
      "params": {"mu":    {"shape": "power3", "coef": [0.1, 1.5, 0.19], "defaults": true},
                 "sigma": 0.3}}]}            # a number in a conditional dim = fixed (f_sigma)

From one spec the harness builds the virocon model (build_virocon) and the
independent reference (RefModel); the spec itself goes into replay files.
"""
import itertools
import math
import types

import numpy as np
from scipy import special as sp

from . import refmodel as R

# ----------------------------------------------------------------------
# dependence shapes: raw python callables f(x, *coef)
# ----------------------------------------------------------------------


def _power3(x, a, b, c):
    return a + b * x**c


def _exp3(x, a, b, c):
    return a + b * np.exp(c * x)


def _asymdecrease3(x, a, b, c):
    return a + b / (1 + c * x)


def _lnsquare2(x, a, b, c):
    return np.log(a + b * np.sqrt(np.divide(x, 9.81)))


def _logistics4(x, a, b, c, d):
    return a + b / (1 + np.exp(c * (x - d)))


def _linear2(x, a, b):
    return a + b * x


def _limited_growth3(x, s, a, b):
    return s + a * (1 - np.exp(-b * x))


def _poly3(x, a, b, c):
    return a + b * x + c * x * x


def _tanh3(x, a, b, c):
    return a + b * (1 + np.tanh(c * x)) / 2


def _const_scalar(x, a):
    # hostile: returns a scalar whatever the shape of x - as a Python float, a 0-d ndarray or a numpy scalar
    # (which of the three is a deterministic function of the value, so that reference and model agree)
    k = int(abs(float(a)) * 1e6) % 3
    if k == 1:
        return np.asarray(float(a))
    if k == 2:
        return np.float64(a)
    return a


def const_with_return_type(a, k):
    """The nearby constant whose _const_scalar return type is k (0 Python float, 1 0-d ndarray, 2 numpy scalar)."""
    a = round(float(a), 6)
    for j in range(3):
        b = a + j * 1e-6 * (1 if a >= 0 else -1)
        if int(abs(b) * 1e6) % 3 == k:
            return b
    return a


def _const_vec(x, a):
    return a + 0 * x


def _alpha3(x, a, b, c, d_of_x):
    return (a + b * x**c) / 2.0445 ** (1 / d_of_x(x))


SHAPES = {
    "power3": (_power3, 3, "pos"),
    "exp3": (_exp3, 3, "pos"),
    "asymdecrease3": (_asymdecrease3, 3, "pos"),
    "lnsquare2": (_lnsquare2, 3, "pos"),
    "logistics4": (_logistics4, 4, "real"),
    "linear2": (_linear2, 2, "pos"),
    "limited_growth3": (_limited_growth3, 3, "pos"),
    "poly3": (_poly3, 3, "pos"),
    "tanh3": (_tanh3, 3, "real"),
    "const_scalar": (_const_scalar, 1, "real"),
    "const_vec": (_const_vec, 1, "real"),
    "alpha3": (_alpha3, 3, "pos"),  # + chained d_of_x
}


def shape_eval(dep, x, sibling_eval=None):
    """Reference evaluation of a dependence spec at x (harness-side)."""
    fn = SHAPES[dep["shape"]][0]
    if dep["shape"] == "alpha3":
        inner = sibling_eval(dep["chain"])
        return fn(x, *dep["coef"], d_of_x=inner)
    u = dep.get("unit")
    if u:
        return fn(np.asarray(x, float) / u["xdiv"], *dep["coef"]) * u["mul"] + u["add"]
    return fn(x, *dep["coef"])


# how a parameter changes when its variable is measured in another unit (x' = s * x)
UNIT = {
    "weibull": {"alpha": "mul", "beta": None, "gamma": "mul"},
    "lognormal": {"mu": "addlog", "sigma": None},
    "lnnf": {"mu_norm": "mul", "sigma_norm": "mul"},
    "normal": {"mu": "mul", "sigma": "mul"},
    "expweib": {"alpha": "mul", "beta": None, "delta": None},
    "gengamma": {"m": None, "c": None, "lambda_": "div"},
    "gamma": {"a": None, "loc": "mul", "scale": "mul"},
    "rayleigh": {"loc": "mul", "scale": "mul"},
    "gumbel_r": {"loc": "mul", "scale": "mul"},
    "sc_gengamma": {"a": None, "c": None, "loc": "mul", "scale": "mul"},
    "normalmix": {"w": None, "mu1": "mul", "mu2": "mul", "sigma": "mul"},
}


def rescale_spec(spec, factors):
    """The same joint law with variable i measured in another unit (x_i' = factors[i] * x_i): scale-type parameters are
    transformed, dependence functions are evaluated at x / s_conditioner and their value is transformed likewise.
    Returns None where that is not expressible (circular family, chained alpha3, reciprocal scale with a dependence)."""
    import copy

    out = copy.deepcopy(spec)
    for i, d in enumerate(out["dims"]):
        fam = d["fam"]
        if fam not in UNIT:
            if factors[i] != 1:
                return None
            continue
        s_own = float(factors[i])
        c = d.get("cond")
        s_c = float(factors[c]) if c is not None else 1.0
        for name, v in d["params"].items():
            how = UNIT[fam][name]
            if isinstance(v, dict):
                if v["shape"] == "alpha3" or any(isinstance(w, dict) and w.get("shape") == "alpha3" for w in d["params"].values()):
                    return None
                if how == "div":
                    return None
                mul, add = (s_own, 0.0) if how == "mul" else (1.0, math.log(s_own)) if how == "addlog" else (1.0, 0.0)
                v.pop("defaults", None)
                v["unit"] = {"xdiv": s_c, "mul": mul, "add": add}
            else:
                if how == "mul":
                    d["params"][name] = v * s_own
                elif how == "addlog":
                    d["params"][name] = v + math.log(s_own)
                elif how == "div":
                    d["params"][name] = v / s_own
    return out


def _unit_wrap(fn, ncoef, u):
    xdiv, mul, add = u["xdiv"], u["mul"], u["add"]
    if ncoef == 1:
        def f(x, a):  # noqa: E306
            return fn(x / xdiv, a) * mul + add
    elif ncoef == 2:
        def f(x, a, b):  # noqa: E306
            return fn(x / xdiv, a, b) * mul + add
    elif ncoef == 3:
        def f(x, a, b, c):  # noqa: E306
            return fn(x / xdiv, a, b, c) * mul + add
    else:
        def f(x, a, b, c, d):  # noqa: E306
            return fn(x / xdiv, a, b, c, d) * mul + add
    f.__name__ = fn.__name__ + "_unit"
    return f


# ----------------------------------------------------------------------
# families
# ----------------------------------------------------------------------
def _classes():
    import virocon
    from virocon.distributions import LogNormalNormFitDistribution, ScipyDistribution

    class GammaDistribution(ScipyDistribution):
        scipy_dist_name = "gamma"

    class RayleighDistribution(ScipyDistribution):
        scipy_dist_name = "rayleigh"

    class GumbelDistribution(ScipyDistribution):
        scipy_dist_name = "gumbel_r"

    class ScipyGenGammaDistribution(ScipyDistribution):  # two shape parameters (a, c)
        scipy_dist_name = "gengamma"

    from virocon.distributions import Distribution
    import scipy.stats as sts

    class NormalMixtureDistribution(Distribution):
        """A user-defined distribution (documented extension point): mixture of two normals with a common sigma."""

        def __init__(self, w=0.5, mu1=0, mu2=5, sigma=1, f_w=None, f_mu1=None, f_mu2=None, f_sigma=None):
            self.w = w if f_w is None else f_w
            self.mu1 = mu1 if f_mu1 is None else f_mu1
            self.mu2 = mu2 if f_mu2 is None else f_mu2
            self.sigma = sigma if f_sigma is None else f_sigma
            self.f_w, self.f_mu1, self.f_mu2, self.f_sigma = f_w, f_mu1, f_mu2, f_sigma

        @property
        def parameters(self):
            return {"w": self.w, "mu1": self.mu1, "mu2": self.mu2, "sigma": self.sigma}

        def _p(self, w, mu1, mu2, sigma):
            return (self.w if w is None else w, self.mu1 if mu1 is None else mu1, self.mu2 if mu2 is None else mu2, self.sigma if sigma is None else sigma)

        def cdf(self, x, w=None, mu1=None, mu2=None, sigma=None):
            w, a, b, s_ = self._p(w, mu1, mu2, sigma)
            return w * sts.norm.cdf(x, a, s_) + (1 - w) * sts.norm.cdf(x, b, s_)

        def pdf(self, x, w=None, mu1=None, mu2=None, sigma=None):
            w, a, b, s_ = self._p(w, mu1, mu2, sigma)
            return w * sts.norm.pdf(x, a, s_) + (1 - w) * sts.norm.pdf(x, b, s_)

        def icdf(self, prob, w=None, mu1=None, mu2=None, sigma=None):
            w, a, b, s_ = self._p(w, mu1, mu2, sigma)
            from vmon import refmodel as _R

            return _R.icdf("normalmix", prob, w=w, mu1=a, mu2=b, sigma=s_)

        def draw_sample(self, n, w=None, mu1=None, mu2=None, sigma=None, *, random_state=None):
            w, a, b, s_ = self._p(w, mu1, mu2, sigma)
            rng = np.random.default_rng(random_state)
            pick = rng.random(n) < w
            return np.where(pick, rng.normal(a, s_, n), rng.normal(b, s_, n))

        def _fit_mle(self, data):
            raise NotImplementedError()

        def _fit_lsq(self, data, weights):
            raise NotImplementedError()

    return {
        "normalmix": NormalMixtureDistribution,
        "weibull": virocon.WeibullDistribution,
        "lognormal": virocon.LogNormalDistribution,
        "normal": virocon.NormalDistribution,
        "lnnf": LogNormalNormFitDistribution,
        "expweib": virocon.ExponentiatedWeibullDistribution,
        "gengamma": virocon.GeneralizedGammaDistribution,
        "vonmises": virocon.VonMisesDistribution,
        "gamma": GammaDistribution,
        "rayleigh": RayleighDistribution,
        "gumbel_r": GumbelDistribution,
        "sc_gengamma": ScipyGenGammaDistribution,
    }


_CLS = None


def classes():
    global _CLS
    if _CLS is None:
        _CLS = _classes()
    return _CLS


SHIPPED = ["weibull", "lognormal", "normal", "lnnf", "expweib", "gengamma", "vonmises"]
SCIPY_SUB = ["gamma", "rayleigh", "gumbel_r", "sc_gengamma"]
ALL_FAMS = SHIPPED + SCIPY_SUB
NONNEG = ["weibull", "lognormal", "lnnf", "expweib", "gengamma"]

# which parameters are strictly positive ("pos") and which are free ("loc")
KIND = {
    "weibull": {"alpha": "pos", "beta": "pos", "gamma": "loc+"},
    "lognormal": {"mu": "loc", "sigma": "pos"},
    "normal": {"mu": "loc", "sigma": "pos"},
    "lnnf": {"mu_norm": "pos", "sigma_norm": "pos"},
    "expweib": {"alpha": "pos", "beta": "pos", "delta": "pos"},
    "gengamma": {"m": "pos", "c": "pos", "lambda_": "pos"},
    "vonmises": {"kappa": "pos", "mu": "loc"},
    "gamma": {"a": "pos", "loc": "loc+", "scale": "pos"},
    "rayleigh": {"loc": "loc+", "scale": "pos"},
    "gumbel_r": {"loc": "loc", "scale": "pos"},
    "sc_gengamma": {"a": "pos", "c": "pos", "loc": "loc+", "scale": "pos"},
    "normalmix": {"w": "pos", "mu1": "loc", "mu2": "loc", "sigma": "pos"},
}

# "regular" parameter ranges for model workloads (metocean-like magnitudes)
RANGE = {
    "weibull": {"alpha": (0.3, 8.0), "beta": (0.7, 4.0), "gamma": (0.0, 2.0)},
    "lognormal": {"mu": (-1.0, 2.5), "sigma": (0.05, 0.8)},
    "normal": {"mu": (-5.0, 15.0), "sigma": (0.2, 5.0)},
    "lnnf": {"mu_norm": (0.3, 12.0), "sigma_norm": (0.1, 4.0)},
    "expweib": {"alpha": (0.05, 8.0), "beta": (0.6, 3.0), "delta": (0.5, 6.0)},
    "gengamma": {"m": (0.5, 5.0), "c": (0.7, 3.0), "lambda_": (0.1, 3.0)},
    "vonmises": {"kappa": (0.3, 12.0), "mu": (-2.0, 2.0)},
    "gamma": {"a": (0.6, 8.0), "loc": (0.0, 1.0), "scale": (0.2, 4.0)},
    "rayleigh": {"loc": (0.0, 1.0), "scale": (0.3, 5.0)},
    "gumbel_r": {"loc": (-2.0, 8.0), "scale": (0.3, 3.0)},
    "sc_gengamma": {"a": (0.6, 5.0), "c": (0.7, 3.0), "loc": (0.0, 1.0), "scale": (0.3, 4.0)},
}

# wide ranges for the univariate workloads (C05): several orders of magnitude
WIDE = {
    "weibull": {"alpha": (1e-3, 1e3), "beta": (0.2, 20.0), "gamma": (0.0, 50.0)},
    "lognormal": {"mu": (-6.0, 6.0), "sigma": (0.02, 3.0)},
    "normal": {"mu": (-1e3, 1e3), "sigma": (1e-3, 1e3)},
    "lnnf": {"mu_norm": (1e-2, 1e3), "sigma_norm": (1e-3, 1e3)},
    "expweib": {"alpha": (1e-3, 1e3), "beta": (0.2, 10.0), "delta": (0.1, 20.0)},
    "gengamma": {"m": (0.1, 30.0), "c": (0.2, 8.0), "lambda_": (1e-3, 1e3)},
    "vonmises": {"kappa": (0.05, 45.0), "mu": (-3.0, 3.0)},
    "gamma": {"a": (0.1, 30.0), "loc": (0.0, 5.0), "scale": (1e-2, 1e2)},
    "rayleigh": {"loc": (0.0, 5.0), "scale": (1e-2, 1e2)},
    "gumbel_r": {"loc": (-50.0, 50.0), "scale": (1e-2, 1e2)},
    "sc_gengamma": {"a": (0.1, 30.0), "c": (0.2, 8.0), "loc": (0.0, 5.0), "scale": (1e-2, 1e2)},
}


def draw_param(rng, fam, name, table=RANGE):
    lo, hi = table[fam][name]
    kind = KIND[fam][name]
    if kind == "pos":
        return float(np.exp(rng.uniform(math.log(lo), math.log(hi))))
    if kind == "loc+":
        if rng.random() < 0.4:
            return 0.0
        return float(rng.uniform(lo, hi))
    return float(rng.uniform(lo, hi))


def draw_params(rng, fam, table=RANGE):
    return {n: draw_param(rng, fam, n, table) for n in R.PARAMS[fam]}


# ----------------------------------------------------------------------
# reference hierarchical model
# ----------------------------------------------------------------------
class RefModel:
    def __init__(self, spec):
        self.spec = spec
        self.dims = spec["dims"]
        self.n_dim = len(self.dims)
        self.cond = [d.get("cond") for d in self.dims]

    def params_at(self, i, g=None):
        d = self.dims[i]
        out = {}
        cache = {}

        def sib(name):
            def inner(x):
                if name not in cache:
                    cache[name] = shape_eval(d["params"][name], x, sib)
                return cache[name]

            return inner

        for name in R.PARAMS[d["fam"]]:
            v = d["params"][name]
            if isinstance(v, dict):
                cache.clear()
                val = shape_eval(v, g, sib)
                out[name] = val
            else:
                out[name] = v
        return out

    def _g(self, i, X):
        c = self.cond[i]
        return None if c is None else X[..., c]

    def cond_cdf(self, i, X):
        X = np.asarray(X, float)
        return R.cdf(self.dims[i]["fam"], X[..., i], **self.params_at(i, self._g(i, X)))

    def cond_sf(self, i, X):
        X = np.asarray(X, float)
        return R.sf(self.dims[i]["fam"], X[..., i], **self.params_at(i, self._g(i, X)))

    def cond_pdf(self, i, X):
        X = np.asarray(X, float)
        return R.pdf(self.dims[i]["fam"], X[..., i], **self.params_at(i, self._g(i, X)))

    def pdf(self, X):
        X = np.atleast_2d(np.asarray(X, float))
        f = np.ones(X.shape[0])
        for i in range(self.n_dim):
            f = f * self.cond_pdf(i, X)
        return f

    def rosenblatt(self, X):
        """U = Phi^-1(F_i(x_i | x_cond)), tail-aware."""
        X = np.atleast_2d(np.asarray(X, float))
        U = np.empty_like(X)
        for i in range(self.n_dim):
            c = self.cond_cdf(i, X)
            s = self.cond_sf(i, X)
            with np.errstate(all="ignore"):
                U[:, i] = np.where(c < 0.5, sp.ndtri(c), -sp.ndtri(s))
        return U

    def inv_rosenblatt(self, U):
        U = np.atleast_2d(np.asarray(U, float))
        X = np.empty_like(U)
        for i in range(self.n_dim):
            p = self.params_at(i, self._g(i, X))
            fam = self.dims[i]["fam"]
            lower = R.icdf(fam, sp.ndtr(U[:, i]), **p)
            upper = R.isf(fam, sp.ndtr(-U[:, i]), **p)
            X[:, i] = np.where(U[:, i] < 0, lower, upper)
        return X

    def sample(self, n, rng):
        return self.inv_rosenblatt(rng.standard_normal((n, self.n_dim)))

    def support_kind(self, i):
        return R.SUPPORT[self.dims[i]["fam"]]

    def dim_range(self, i, eps=1e-12, grid=41):
        """Conservative [lo, hi] containing the eps..1-eps quantiles of variable i."""
        fam = self.dims[i]["fam"]
        c = self.cond[i]
        if c is None:
            p = self.params_at(i, None)
            return float(R.icdf(fam, eps, **p)), float(R.isf(fam, eps, **p))
        lo, hi = self.dim_range(c, eps, grid)
        g = np.linspace(lo, hi, grid)
        p = self.params_at(i, g)
        with np.errstate(all="ignore"):
            a = np.asarray(R.icdf(fam, eps, **p), float)
            b = np.asarray(R.isf(fam, eps, **p), float)
        return float(np.nanmin(a)), float(np.nanmax(b))


# ----------------------------------------------------------------------
# virocon build
# ----------------------------------------------------------------------
def _fn_with_defaults(fn, coef):
    g = types.FunctionType(fn.__code__, fn.__globals__, fn.__name__, tuple(coef), fn.__closure__)
    return g


def build_depfuncs(dimspec, bounds=False):
    """DependenceFunction objects for one conditional dimension (handles chains)."""
    from virocon import DependenceFunction

    out = {}
    order = [n for n, v in dimspec["params"].items() if isinstance(v, dict) and v["shape"] != "alpha3"]
    order += [n for n, v in dimspec["params"].items() if isinstance(v, dict) and v["shape"] == "alpha3"]
    for name in order:
        v = dimspec["params"][name]
        fn, ncoef, _ = SHAPES[v["shape"]]
        kw = {}
        if v["shape"] == "alpha3":
            kw["d_of_x"] = out[v["chain"]]
            dep = DependenceFunction(fn, **kw)
            dep.parameters = dict(zip(list(dep.parameters.keys()), v["coef"]))
        elif v.get("unit"):
            dep = DependenceFunction(_unit_wrap(fn, ncoef, v["unit"]))
            dep.parameters = dict(zip(list(dep.parameters.keys()), v["coef"]))
        elif v.get("defaults"):
            dep = DependenceFunction(_fn_with_defaults(fn, v["coef"]))
        else:
            dep = DependenceFunction(fn)
            dep.parameters = dict(zip(list(dep.parameters.keys()), v["coef"]))
        out[name] = dep
    # keep the declaration order of the spec (or its reverse: the order of the parameters dict must not matter)
    names = [n for n, v in dimspec["params"].items() if isinstance(v, dict)]
    if dimspec.get("dict_order") == "reversed":
        names = names[::-1]
    return {n: out[n] for n in names}


def build_dist(dimspec):
    cls = classes()[dimspec["fam"]]
    if dimspec.get("cond") is None:
        return cls(**{k: v for k, v in dimspec["params"].items()})
    fixed = {f"f_{k}": v for k, v in dimspec["params"].items() if not isinstance(v, dict)}
    # documented: "if f_<name> is set, <name> is ignored": every fixed value is accompanied by a decoy plain value
    # (given AFTER the fixed one), which must never be used
    decoy = {k: v * 1.37 + 0.11 for k, v in dimspec["params"].items() if not isinstance(v, dict)}
    return cls(**fixed, **decoy)


def build_virocon(spec):
    from virocon import GlobalHierarchicalModel

    descs = []
    for d in spec["dims"]:
        desc = {"distribution": build_dist(d)}
        if d.get("cond") is not None:
            desc["conditional_on"] = d["cond"]
            desc["parameters"] = build_depfuncs(d)
        descs.append(desc)
    model = GlobalHierarchicalModel(descs)
    for i, dist in enumerate(model.distributions):
        if spec["dims"][i].get("cond") is not None:
            try:
                dist._vmon_dimspec = spec["dims"][i]  # lets the conditional-distribution monitor find its reference
            except AttributeError:
                pass
    return model


def change_in_place(model, spec, rng):
    """What a re-fit does: the SAME dependence-function objects of a live model get other parameter values
    (`dep.parameters[...]`), and the spec dict is updated IN PLACE so that every reference built from it follows.
    Returns the number of changed dependence functions (0: nothing admissible could be changed)."""
    ref = RefModel(spec)
    changed = 0
    for i, d in enumerate(spec["dims"]):
        c = d.get("cond")
        if c is None:
            continue
        try:
            xlo, xhi = ref.dim_range(c, eps=1e-9)
        except Exception:  # noqa: BLE001
            continue
        if not (np.isfinite(xlo) and np.isfinite(xhi)):
            continue
        dist = model.distributions[i]
        for name, v in list(d["params"].items()):
            if not isinstance(v, dict) or v["shape"] in ("alpha3",) or v.get("defaults") or v.get("unit"):
                continue
            dep = dist.conditional_parameters[name]
            for factor in (float(rng.uniform(1.04, 1.15)), float(rng.uniform(0.9, 0.97))):
                new_coef = list(v["coef"])
                new_coef[0] = new_coef[0] * factor + (0.01 if KIND[d["fam"]][name] != "pos" else 0.0)
                trial = dict(d["params"])
                trial[name] = {**v, "coef": new_coef}
                if not _dim_admissible({"fam": d["fam"], "cond": 0, "params": trial}, float(xlo), float(xhi)):
                    continue
                keys = list(dep.parameters.keys())
                if rng.random() < 0.5:
                    for k_, c_ in zip(keys, new_coef):
                        dep.parameters[k_] = c_  # item assignment, as a user would edit one coefficient
                else:
                    dep.parameters = dict(zip(keys, new_coef))  # what DependenceFunction.fit does
                v["coef"] = new_coef  # same dict object as in the spec (and in dist._vmon_dimspec)
                changed += 1
                break
    return changed


# ----------------------------------------------------------------------
# random spec generation
# ----------------------------------------------------------------------
def all_structures(n_dim):
    """Every conditional_on vector with conditional_on[0] None and conditional_on[i] in {None, 0..i-1}."""
    opts = [[None]] + [[None] + list(range(i)) for i in range(1, n_dim)]
    return [list(t) for t in itertools.product(*opts)]


def _gen_dep(rng, kind, lo, hi, xlo, xhi, domain, allow_hostile=True, fam=None, pname=None):
    """A dependence spec mapping the conditioning range [xlo, xhi] into [lo, hi]."""
    xs = max(abs(xhi), abs(xlo), 1e-6)
    names = ["logistics4", "tanh3", "const_vec"]
    if allow_hostile:
        names.append("const_scalar")
    if domain == "pos":
        names += ["power3", "exp3", "asymdecrease3", "linear2", "limited_growth3", "poly3", "exp3", "power3"]
        if fam == "lognormal" and pname == "mu":
            names += ["lnsquare2", "lnsquare2"]
    shape = names[int(rng.integers(len(names)))]
    span = hi - lo
    k = float(rng.uniform(0.3, 3.0))
    if shape == "power3":
        c = float(rng.uniform(0.15, 1.3))
        coef = [lo, span / xs**c, c]
    elif shape == "exp3":
        coef = [lo, span, -k / xs * 3]
    elif shape == "asymdecrease3":
        coef = [lo, span, k / xs * 5]
    elif shape == "logistics4":
        mid = xlo + (xhi - xlo) * float(rng.uniform(0.2, 0.8))
        coef = [lo, span, -k * 4 / max(xhi - xlo, 1e-6), mid]
    elif shape == "linear2":
        coef = [lo, span / xs]
    elif shape == "limited_growth3":
        coef = [lo, span, k / xs * 3]
    elif shape == "poly3":
        u = float(rng.uniform(0.2, 0.8))
        coef = [lo, u * span / xs, (1 - u) * span / xs**2]
    elif shape == "tanh3":
        coef = [lo, span, k * 2 / xs]
    elif shape == "lnsquare2":
        # ln(a + b sqrt(x/9.81)) between lo and hi
        a = math.exp(lo)
        b = (math.exp(hi) - a) / math.sqrt(xs / 9.81)
        coef = [a, b, 0.0]
    else:  # constants
        coef = [float(rng.uniform(lo, hi))]
    d = {"shape": shape, "coef": [float(c) for c in coef]}
    if rng.random() < 0.3:
        d["defaults"] = True
    return d


def gen_dim(rng, fam, cond, ref_so_far, table=RANGE, allow_hostile=True, p_fixed=0.3, allow_chain=True, dep_names=None):
    """One dimension spec.  ref_so_far: RefModel of the dimensions before (for ranges)."""
    if cond is None:
        return {"fam": fam, "params": draw_params(rng, fam, table)}
    xlo, xhi = ref_so_far.dim_range(cond)
    domain = "pos" if (ref_so_far.support_kind(cond) == "pos" and xlo >= 0) else "real"
    names = R.PARAMS[fam]
    for _attempt in range(50):
        params = {}
        if dep_names is None:
            deps = []
            for n in names:
                if rng.random() < p_fixed:
                    params[n] = draw_param(rng, fam, n, table)
                else:
                    deps.append(n)
            if not deps:
                n = names[int(rng.integers(len(names)))]
                params.pop(n, None)
                deps.append(n)
        else:
            deps = list(dep_names)
            for n in names:
                if n not in deps:
                    params[n] = draw_param(rng, fam, n, table)
        for n in deps:
            lo, hi = table[fam][n]
            kind = KIND[fam][n]
            if kind == "pos":
                a = float(np.exp(rng.uniform(math.log(lo), math.log(hi))))
                b = float(np.exp(rng.uniform(math.log(lo), math.log(hi))))
            else:
                a, b = float(rng.uniform(lo, hi)), float(rng.uniform(lo, hi))
                if kind == "loc+":
                    a, b = max(a, 0.0), max(b, 0.0)
            lo2, hi2 = min(a, b), max(a, b)
            if hi2 - lo2 < 1e-3 * max(abs(hi2), 1e-3):
                hi2 = lo2 + 1e-3 * max(abs(lo2), 1.0)
            params[n] = _gen_dep(rng, kind, lo2, hi2, xlo, xhi, domain, allow_hostile, fam, n)
        # chained alpha3 (the OMAE2020 V-Hs structure): alpha depends on the beta function
        if (
            allow_chain
            and fam in ("expweib", "weibull")
            and domain == "pos"
            and isinstance(params.get("alpha"), dict)
            and isinstance(params.get("beta"), dict)
            and rng.random() < 0.35
        ):
            lo, hi = table[fam]["alpha"]
            c = float(rng.uniform(0.3, 1.5))
            xs = max(abs(xhi), 1e-6)
            a0 = float(rng.uniform(lo, hi / 2))
            params["alpha"] = {"shape": "alpha3", "coef": [a0, (hi - a0) / xs**c * float(rng.uniform(0.2, 1.0)), c], "chain": "beta"}
        params = {n: params[n] for n in names}  # declaration order = the family's parameter order
        dim = {"fam": fam, "cond": cond, "params": params}
        if rng.random() < 0.4:
            dim["dict_order"] = "reversed"
        if _dim_admissible(dim, xlo, xhi):
            return dim
    # fall back: everything a vector constant
    params = {n: {"shape": "const_vec", "coef": [draw_param(rng, fam, n, table)]} for n in names}
    return {"fam": fam, "cond": cond, "params": params}


def _dim_admissible(dim, xlo, xhi):
    g = np.linspace(xlo, xhi, 61)
    tmp = RefModel({"dims": [dim]})
    tmp.cond = [0]
    try:
        with np.errstate(all="ignore"):
            p = tmp.params_at(0, g)
    except Exception:  # noqa: BLE001
        return False
    fam = dim["fam"]
    for n, v in p.items():
        v = np.broadcast_to(np.asarray(v, float), g.shape)
        if not np.all(np.isfinite(v)):
            return False
        kind = KIND[fam][n]
        lo, hi = RANGE[fam][n] if n in RANGE[fam] else (None, None)
        if kind == "pos":
            if np.any(v <= 0):
                return False
            # stay within a factor 3 of the regular region
            if np.any(v < lo / 3) or np.any(v > hi * 3):
                return False
        if kind == "loc+" and np.any(v < 0):
            return False
    if fam == "lnnf":
        pass
    return True


def gen_spec(rng, n_dim=None, structure=None, fams=None, allow_hostile=True, nonneg=False, table=RANGE, first_fams=None, allow_chain=True):
    if structure is None:
        n_dim = n_dim or int(rng.choice([2, 2, 3, 4]))
        structs = all_structures(n_dim)
        structure = structs[int(rng.integers(len(structs)))]
    n_dim = len(structure)
    pool = fams or (NONNEG if nonneg else SHIPPED)
    dims = []
    for i in range(n_dim):
        if i == 0 and first_fams:
            fam = first_fams[int(rng.integers(len(first_fams)))]
        else:
            fam = pool[int(rng.integers(len(pool)))]
        ref = RefModel({"dims": dims}) if dims else None
        dims.append(gen_dim(rng, fam, structure[i], ref, table, allow_hostile, allow_chain=allow_chain))
    return {"dims": dims}


def spec_signature(spec):
    """Class signature of a spec: families x structure x dependence shapes."""
    parts = []
    for d in spec["dims"]:
        deps = ",".join(
            f"{k}:{v['shape']}" if isinstance(v, dict) else f"{k}:fix" for k, v in d["params"].items()
        ) if d.get("cond") is not None else "-"
        parts.append(f"{d['fam']}|{d.get('cond')}|{deps}")
    return ";".join(parts)


# A few hand-written specs mirroring models that ship with virocon / its tests
def spec_seastate():
    return {
        "dims": [
            {"fam": "weibull", "params": {"alpha": 2.776, "beta": 1.471, "gamma": 0.8888}},
            {
                "fam": "lognormal",
                "cond": 0,
                "params": {
                    "mu": {"shape": "power3", "coef": [0.1, 1.489, 0.1901], "defaults": True},
                    "sigma": {"shape": "exp3", "coef": [0.04, 0.1748, -0.2243], "defaults": True},
                },
            },
        ]
    }


def spec_omae_vhs():
    return {
        "dims": [
            {"fam": "expweib", "params": {"alpha": 10.0, "beta": 2.42, "delta": 0.761}},
            {
                "fam": "expweib",
                "cond": 0,
                "params": {
                    "alpha": {"shape": "alpha3", "coef": [0.394, 0.0178, 1.88], "chain": "beta"},
                    "beta": {"shape": "logistics4", "coef": [0.582, 1.90, -0.248, 8.49]},
                    "delta": 5.0,
                },
            },
        ]
    }
