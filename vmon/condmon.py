"""Monitor on ConditionalDistribution.pdf / cdf / icdf / draw_sample (C08; also active under C01, C02, C07).

For every call the harness evaluates the dependence specs itself at `given` (chains at the same given), takes the fixed
values from the spec and compares the result with the reference family formula at those parameters.
"""
import numpy as np

from . import distmon
from . import monitors as M
from . import refmodel as R
from . import specs as S


def ref_params(dimspec, given):
    tmp = S.RefModel({"dims": [dimspec]})
    return tmp.params_at(0, given)


def _post(kind):
    def post(call):
        c = M.current()
        if c is None or call.exc is not None:
            return
        obj = call.self
        if c.counts["cond.compare"] >= distmon.BUDGET[0]:
            c.count("cond.calls-beyond-budget")
            return
        dimspec = getattr(obj, "_vmon_dimspec", None)
        if dimspec is None:
            c.count("cond.unknown-spec")
            return
        fam = dimspec["fam"]
        args = list(call.args)
        kw = dict(call.kwargs)
        if kind == "draw_sample":
            n = args[0] if args else kw.get("n")
            given = args[1] if len(args) > 1 else kw.get("given")
            seed = kw.get("random_state")
            if not isinstance(seed, (int, np.integer)) or isinstance(seed, bool):
                c.count("cond.draw_sample.unseeded-skipped")
                return
            with np.errstate(all="ignore"):
                p = ref_params(dimspec, np.asarray(given, float) if np.ndim(given) > 0 else given)
            if np.ndim(given) > 0:
                # n realizations per conditioning value: dependence values are per conditioning value even
                # when the callable returns a scalar (constant)
                p = {k: (np.full(np.shape(given), v) if (isinstance(dimspec["params"][k], dict) and np.ndim(v) == 0) else v) for k, v in p.items()}
            want = obj.distribution.draw_sample(n, **p, random_state=seed)
            same = np.shape(want) == np.shape(call.result) and bool(np.all(np.asarray(want) == np.asarray(call.result)))
            c.check("cond.draw_sample-eq-template", same, f"conditional {fam}: seeded draw_sample differs from the template drawn at the dependence values", family=fam, given=given, n=n)
            return
        x = args[0] if args else kw.get("x", kw.get("prob"))
        given = args[1] if len(args) > 1 else kw.get("given")
        try:
            ga = np.asarray(given, float)
            xa = np.asarray(x, float)
        except (TypeError, ValueError):
            return
        if not (np.all(np.isfinite(ga)) and np.all(np.isfinite(xa))):
            c.count(f"cond.{kind}.skipped-nonfinite")
            return
        with np.errstate(all="ignore"):
            p = ref_params(dimspec, ga if ga.ndim else float(ga))
        if not distmon._finite_params(p) or not distmon._adm(fam, p):
            c.count(f"cond.{kind}.skipped-inadmissible")
            return
        ok, idx, ref = distmon.compare(kind, fam, xa, p, call.result)
        c.count(f"cond.{kind}[{fam}]")
        c.count("cond.compare")
        if not ok:
            got = np.asarray(call.result, float)
            c.violation(
                f"conditional {fam}.{kind} is not the template at the dependence values",
                mechanism=None,
                family=fam,
                dimspec=dimspec,
                x=xa.ravel()[:3].tolist(),
                given=ga.ravel()[:3].tolist(),
                got=np.broadcast_to(got, np.shape(ref)).ravel()[idx] if idx >= 0 else None,
                ref=np.asarray(ref).ravel()[idx] if idx >= 0 else None,
            )
        # vectorised call == the same pairs one at a time
        if xa.ndim == 1 and xa.size > 1 and xa.size <= 400 and np.ndim(call.result) == 1:
            gs = np.broadcast_to(ga, xa.shape)
            meth = getattr(obj, kind)
            step = max(1, xa.size // 16)
            worst = 0.0
            bad = None
            fn = {"cdf": R.cdf, "pdf": R.pdf, "icdf": R.icdf}[kind]
            for j in range(0, xa.size, step):
                one = float(np.asarray(meth(float(xa[j]), float(gs[j])), float))
                v = float(call.result[j])
                if one == v or (np.isnan(one) and np.isnan(v)):
                    continue
                # derived tolerance: the user's callable may differ by an ulp between a Python float and an array
                # element; allow what +-4 ulp of each dependence value does to the reference at this point (a quantile
                # next to a dependent location, a far-tail probability) plus 1e-12 - a diverging code path is far larger
                pj = {k: float(np.broadcast_to(np.asarray(val, float), xa.shape)[j]) for k, val in p.items()}
                sens = 0.0
                with np.errstate(all="ignore"):
                    r0 = float(fn(fam, float(xa[j]), **pj))
                    for k in pj:
                        if not isinstance(dimspec["params"].get(k), dict):
                            continue
                        for sgn in (-1.0, 1.0):
                            q = dict(pj)
                            q[k] = pj[k] + sgn * 4 * np.spacing(abs(pj[k]))
                            r1 = float(fn(fam, float(xa[j]), **q))
                            if np.isfinite(r1) and np.isfinite(r0):
                                sens = max(sens, abs(r1 - r0))
                e = max(0.0, abs(one - v) - 2 * sens) / max(abs(v), 1e-300)
                if kind == "icdf" and e > 1e-12:
                    # a family whose quantile is found by a numerical root search (von Mises, generic scipy ppf) returns
                    # it to the solver's tolerance only: two answers are the same quantile if their probabilities agree
                    with np.errstate(all="ignore"):
                        pa, pb = float(R.cdf(fam, one, **pj)), float(R.cdf(fam, v, **pj))
                    if np.isfinite(pa) and np.isfinite(pb) and abs(pa - pb) <= 1e-12:
                        e = 0.0
                if e > worst:
                    worst, bad = e, (float(xa[j]), float(gs[j]), v, one, sens)
            c.check("cond.vector-eq-scalar", worst <= 1e-12, f"conditional {fam}.{kind}: vectorised call differs from one pair at a time", family=fam, witness=bad, rel=worst)

    return post


_DONE = [False]


def install():
    distmon.install()
    if _DONE[0]:
        return
    _DONE[0] = True
    from virocon.distributions import ConditionalDistribution

    for kind in ("pdf", "cdf", "icdf", "draw_sample"):
        M.wrap(ConditionalDistribution, kind, post=_post(kind), tag="condmon")
