"""vmon - runtime monitors for virocon (see /verif/DESIGN.md)."""
import os
import sys

HERE = os.path.dirname(os.path.dirname(os.path.abspath(__file__)))
DEPS = os.path.join(HERE, ".deps")
# .deps goes to the *end* of sys.path: it must never shadow a package of /venv.
if os.path.isdir(DEPS) and DEPS not in sys.path:
    sys.path.append(DEPS)

REPO = os.environ.get("VERIF_REPO", "/repo")
