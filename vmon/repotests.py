"""Runs files of the repository's own test suite inside the worker with the monitors installed (DESIGN 2.5).

A monitor that fires there is either too strict or a defect the tests do not assert - it is recorded like any other
violation.  The tests' own pass/fail status is noted, not judged.
"""
import os

from . import REPO


def run(ctx, files, extra_args=()):
    import pytest

    old = os.getcwd()
    os.chdir(REPO)
    try:
        args = ["-c", os.devnull, "--rootdir", REPO, "-q", "-p", "no:cacheprovider", "-p", "no:cov", "-W", "ignore", "--no-header", "-x"]
        args += list(extra_args) + [os.path.join(REPO, f) for f in files]
        with open(os.devnull, "w") as devnull:
            import contextlib

            with contextlib.redirect_stdout(devnull), contextlib.redirect_stderr(devnull):
                rc = pytest.main(args)
    finally:
        os.chdir(old)
    ctx.notes["repo_tests"] = {"files": list(files), "pytest_exit": int(rc)}
    ctx.count("repo-tests.files", len(files))
    ctx.nontrivial = True
    ctx.sig = "repo-tests:" + ",".join(files)
    ctx.sample = {"kind": "repository tests under the monitors", "files": list(files), "pytest_exit": int(rc)}
    if int(rc) not in (0, 1):
        ctx.inconcl(f"pytest could not run {files}: exit {int(rc)}")
    return int(rc)
