"""Sharding, watchdogs, verdicts, evidence (DESIGN 2.4 / 2.5).

A property module (vmon/props/cNN.py) provides

    ID, LEVEL, RULE, ASSUMPTIONS, REQUIRED (monitor names that must have fired)
    gen_cases(tier, seed) -> list of JSON-serialisable case dicts
    install()             -> installs its monitors on virocon (in the worker)
    run_case(case, ctx)   -> drives the real code; monitors/oracles report to ctx

The harness distributes the cases over worker *subprocesses* (not a
multiprocessing.Pool - that hangs when a child dies), collects what the
monitors observed, classifies violations against known_findings.json and writes
evidence/<ID>.json.

Exit codes: 0 held on what was observed (maybe with KNOWN-FINDING lines),
1 violation (VIOLATION line with replay path), 2 inconclusive.
"""
import collections
import concurrent.futures as cf
import hashlib
import importlib
import json
import os
import subprocess
import sys
import time

from . import HERE, REPO
from . import findings as _findings
from .ctx import dumps

WORK = os.path.join(HERE, ".work")
# (selftest/try_patch.sh redirects both, so that a run against a deliberately broken tree never overwrites the
# evidence / replay files of the registered checks)
REPLAYS = os.environ.get("VERIF_REPLAY_DIR") or os.path.join(HERE, "replays")
EVID = os.environ.get("VERIF_EVIDENCE_DIR") or os.path.join(HERE, "evidence")


def load_prop(pid):
    return importlib.import_module(f"vmon.props.{pid.lower()}")


def _shards(cases, n):
    """Greedy balance by optional 'cost' hint; deterministic."""
    order = sorted(range(len(cases)), key=lambda i: (-float(cases[i].get("cost", 1.0)), i))
    loads = [0.0] * n
    out = [[] for _ in range(n)]
    for i in order:
        j = min(range(n), key=lambda k: (loads[k], k))
        out[j].append(cases[i])
        loads[j] += float(cases[i].get("cost", 1.0))
    return [s for s in out if s]


def _run_shard(pid, shard, idx, rundir, timeout):
    inp = os.path.join(rundir, f"shard{idx}.in.json")
    outp = os.path.join(rundir, f"shard{idx}.out.jsonl")
    with open(inp, "w") as f:
        json.dump(shard, f)
    env = dict(os.environ)
    cmd = [sys.executable, "-m", "vmon.worker", pid, inp, outp]
    t0 = time.time()
    status = "ok"
    try:
        p = subprocess.run(cmd, env=env, timeout=timeout, capture_output=True, text=True, cwd=HERE)
        if p.returncode != 0:
            status = f"worker exit {p.returncode}: {p.stderr[-600:]}"
    except subprocess.TimeoutExpired:
        status = f"worker watchdog fired after {timeout}s"
    results = []
    if os.path.exists(outp):
        with open(outp) as f:
            for line in f:
                line = line.strip()
                if line:
                    try:
                        results.append(json.loads(line))
                    except json.JSONDecodeError:
                        pass
    return idx, status, results, time.time() - t0


def _sig(case):
    return hashlib.sha1(dumps({k: v for k, v in case.items() if k not in ("id", "cost")}).encode()).hexdigest()[:16]


def run_property(pid, tier, seed, workers=None, quiet=False):
    t0 = time.time()
    mod = load_prop(pid)
    pid = mod.ID
    workers = workers or int(os.environ.get("VERIF_WORKERS", "0")) or min(16, os.cpu_count() or 4)
    cases = mod.gen_cases(tier, seed)
    for i, c in enumerate(cases):
        c["id"] = i
    by_id = {c["id"]: c for c in cases}
    rundir = os.path.join(WORK, f"{pid}_{tier}_{seed}_{os.getpid()}")
    os.makedirs(rundir, exist_ok=True)
    os.makedirs(REPLAYS, exist_ok=True)
    os.makedirs(EVID, exist_ok=True)
    for fn in os.listdir(REPLAYS):  # stale replay files of an earlier run of the same configuration
        if fn.startswith(f"{pid}_{tier}_s{seed}_case"):
            os.unlink(os.path.join(REPLAYS, fn))

    n_shards = max(1, min(len(cases), workers * int(getattr(mod, "SHARDS_PER_WORKER", 3))))
    shards = _shards(cases, n_shards)
    timeout = float(getattr(mod, "WATCHDOG_S", {}).get(tier, 3600 if tier == "thorough" else 900))

    results, shard_problems = [], []
    with cf.ThreadPoolExecutor(max_workers=workers) as ex:
        futs = [ex.submit(_run_shard, pid, s, i, rundir, timeout) for i, s in enumerate(shards)]
        for fu in cf.as_completed(futs):
            idx, status, res, dt = fu.result()
            results.extend(res)
            if status != "ok":
                shard_problems.append(f"shard {idx}: {status}")
    results.sort(key=lambda r: r.get("case_id", -1))
    done_ids = {r["case_id"] for r in results}
    missing = [c["id"] for c in cases if c["id"] not in done_ids]

    # ---- aggregate ------------------------------------------------------
    kf = _findings.load()
    counts = collections.Counter()
    classes = collections.defaultdict(collections.Counter)
    known_hits = collections.Counter()
    known_example = {}
    unlisted = []  # (result, violation)
    n_incon_cases = 0
    incon_reasons = collections.Counter()
    sigs = set()
    samples = []
    harness_errors = []
    for r in results:
        for k, v in r.get("counts", {}).items():
            counts[k] += v
        for k, v in r.get("classes", {}).items():
            classes[k][v] += 1
        if r.get("inconclusive"):
            n_incon_cases += 1
            for why in r["inconclusive"]:
                incon_reasons[why[:80]] += 1
                if why.startswith("harness-error"):
                    harness_errors.append(why)
        if r.get("nontrivial"):
            sigs.add(r.get("sig") or _sig(by_id.get(r["case_id"], {})))
        if r.get("sample") is not None and len(samples) < 6:
            samples.append(r["sample"])
        for v in r.get("violations", []):
            key = v.get("mechanism")
            entry = _findings.match(kf, pid, key)
            if entry is not None:
                known_hits[key] += 1
                known_example.setdefault(key, (r["case_id"], v))
            else:
                unlisted.append((r, v))

    # ---- replay files for unlisted violations ---------------------------
    replay_paths = []
    seen_cases = set()
    for r, v in unlisted:
        cid = r["case_id"]
        if cid in seen_cases:
            continue
        seen_cases.add(cid)
        path = os.path.join(REPLAYS, f"{pid}_{tier}_s{seed}_case{cid}.json")
        with open(path, "w") as f:
            json.dump(
                {
                    "property": pid,
                    "tier": tier,
                    "seed": seed,
                    "case": by_id.get(cid),
                    "violations": [x for rr, x in unlisted if rr["case_id"] == cid],
                },
                f,
                indent=1,
            )
        replay_paths.append(path)

    required = list(getattr(mod, "REQUIRED", []))
    not_reached = [m for m in required if counts.get(m, 0) == 0]
    total_checks = sum(counts.values())
    inconclusive_run = bool(
        shard_problems
        or missing
        or not_reached
        or total_checks == 0
        or harness_errors
        or (len(results) and n_incon_cases > 0.25 * len(results))
    )

    wall = time.time() - t0
    cov = {
        "evaluations": len(results),
        "distinct_nontrivial": len(sigs),
        "rule": mod.RULE,
        "samples": samples or [{"note": "no sample recorded"}],
        "monitor_evaluations": dict(sorted(counts.items())),
        "monitor_evaluations_total": total_checks,
        "classes_seen": {k: dict(v.most_common(40)) for k, v in classes.items()},
        "inconclusive_cases": n_incon_cases,
        "inconclusive_reasons": dict(incon_reasons.most_common(12)),
        "known_finding_hits": dict(known_hits),
        "unlisted_violations": len(unlisted),
        "cases_generated": len(cases),
        "cases_missing": len(missing),
        "shard_problems": shard_problems[:8],
        "required_monitors_not_reached": not_reached,
        "workers": workers,
        "exhaustive": bool(getattr(mod, "EXHAUSTIVE", {}).get(tier, False)),
        "repo_tree": _repo_state(),
    }
    extra = getattr(mod, "coverage_extra", None)
    if extra is not None:
        try:
            cov.update(extra(results, tier))
        except Exception as e:  # noqa: BLE001
            cov["coverage_extra_error"] = repr(e)
    evidence = {
        "property_id": pid,
        "tier": tier,
        "seed": int(seed),
        "level": mod.LEVEL,
        "coverage": cov,
        "assumptions": list(mod.ASSUMPTIONS),
        "wall_s": round(wall, 2),
        "violations": len(unlisted),
        "verdict": "violated" if unlisted else ("inconclusive" if inconclusive_run else "held-on-observed"),
    }
    with open(os.path.join(EVID, f"{pid}.json"), "w") as f:
        json.dump(evidence, f, indent=1, sort_keys=True)

    # ---- report ----------------------------------------------------------
    out = []
    out.append(
        f"[{pid}] tier={tier} seed={seed} cases={len(results)}/{len(cases)} "
        f"evaluations={cov['evaluations']} distinct_nontrivial={cov['distinct_nontrivial']} monitor_evaluations={total_checks} wall={wall:.1f}s"
    )
    top = ", ".join(f"{k}={v}" for k, v in counts.most_common(10))
    out.append(f"[{pid}] observed: {top}")
    for key, n in sorted(known_hits.items()):
        e = _findings.match(kf, pid, key)
        out.append(f"KNOWN-FINDING: property={pid} {key}: {e['what']} (observed {n}x in this run)")
    if n_incon_cases:
        out.append(f"[{pid}] inconclusive cases: {n_incon_cases} ({dict(incon_reasons.most_common(4))})")
    rc = 0
    if unlisted:
        rc = 1
        shown = set()
        for (r, v), path in zip(
            [(r, v) for r, v in unlisted], [os.path.join(REPLAYS, f"{pid}_{tier}_s{seed}_case{r['case_id']}.json") for r, v in unlisted]
        ):
            if path in shown:
                continue
            shown.add(path)
            if len(shown) > 10:
                break
            out.append(f"[{pid}] violation: {v['what']} mechanism={v.get('mechanism')} detail={json.dumps(v.get('detail'))[:400]}")
            out.append(f"VIOLATION property={pid} replay={path}")
        kinds = collections.Counter((v["what"], v.get("mechanism")) for _r, v in unlisted)
        for (w, mch), n in kinds.most_common(25):
            out.append(f"[{pid}]   {n:5d} x {w}  [mechanism={mch}]")
        out.append(f"[{pid}] {len(unlisted)} unlisted violation(s) in {len(seen_cases)} case(s)")
    elif inconclusive_run:
        rc = 2
        why = "; ".join(
            x
            for x in [
                f"monitors never reached: {not_reached}" if not_reached else "",
                f"{len(missing)} cases not executed" if missing else "",
                "; ".join(shard_problems[:3]),
                f"harness errors: {harness_errors[:2]}" if harness_errors else "",
                f"{n_incon_cases} inconclusive cases" if n_incon_cases > 0.25 * max(1, len(results)) else "",
                "no monitor evaluation at all" if total_checks == 0 else "",
            ]
            if x
        )
        out.append(f"INCONCLUSIVE property={pid} {why}")
    else:
        out.append(f"[{pid}] held on everything observed")
    if not quiet:
        print("\n".join(out), flush=True)
    # clean scratch
    try:
        for fn in os.listdir(rundir):
            os.unlink(os.path.join(rundir, fn))
        os.rmdir(rundir)
    except OSError:
        pass
    return rc


def _repo_state():
    try:
        h = subprocess.run(["git", "-C", REPO, "rev-parse", "--short", "HEAD"], capture_output=True, text=True, timeout=20).stdout.strip()
        d = subprocess.run(["git", "-C", REPO, "status", "--porcelain", "--", "virocon"], capture_output=True, text=True, timeout=20).stdout.strip()
        return {"head": h, "dirty_files": [ln[3:] for ln in d.splitlines()][:20]}
    except Exception:  # noqa: BLE001
        return {"head": "unknown"}


def replay(pid, path):
    from . import worker

    mod = load_prop(pid)
    with open(path) as f:
        data = json.load(f)
    case = data["case"] if "case" in data else data
    if "seed" in data:
        os.environ["VERIF_SEED"] = str(data["seed"])  # the run the replay file came from (per-case generator seed)
    res = worker.run_one(mod, case, install=True)
    kf = _findings.load()
    unl = [v for v in res["violations"] if _findings.match(kf, mod.ID, v.get("mechanism")) is None]
    print(json.dumps(res, indent=1)[:6000])
    for v in res["violations"]:
        if v not in unl:
            print(f"KNOWN-FINDING: property={mod.ID} {v.get('mechanism')}")
    if unl:
        print(f"VIOLATION property={mod.ID} replay={path}")
        return 1
    if res["inconclusive"]:
        print(f"INCONCLUSIVE property={mod.ID} {res['inconclusive'][:2]}")
        return 2
    return 0
