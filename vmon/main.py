"""CLI:  python -m vmon.main C07 [--tier quick|thorough] [--replay PATH] [--workers N]"""
import argparse
import os
import sys

from . import harness


def main(argv=None):
    ap = argparse.ArgumentParser()
    ap.add_argument("property")
    ap.add_argument("--tier", default="quick", choices=["quick", "thorough"])
    ap.add_argument("--replay", default=None)
    ap.add_argument("--workers", type=int, default=None)
    ap.add_argument("--seed", type=int, default=None)
    a = ap.parse_args(argv)
    tier = os.environ.get("VERIF_TIER") or a.tier
    if tier not in ("quick", "thorough"):
        tier = a.tier
    seed = a.seed if a.seed is not None else int(os.environ.get("VERIF_SEED", "0") or 0)
    os.environ["VERIF_SEED"] = str(seed)  # (workers derive the per-case seed of numpy's global generator from it)
    if a.replay:
        return harness.replay(a.property, a.replay)
    return harness.run_property(a.property, tier, seed, workers=a.workers)


if __name__ == "__main__":
    try:
        rc = main()
    except SystemExit:
        raise
    except BaseException as e:  # noqa: BLE001 - a crash of the machinery is never a verdict about the code: inconclusive
        import traceback

        traceback.print_exc()
        print(f"INCONCLUSIVE harness crashed: {type(e).__name__}: {e}")
        rc = 2
    sys.exit(rc)
