"""Reference audit (DESIGN 7.3): refmodel vs scipy.stats called DIRECTLY (not via virocon).
A wrong reference formula must show up here, not as an alarm against virocon."""
import sys, os
sys.path.insert(0, os.path.dirname(os.path.dirname(os.path.abspath(__file__))))
import numpy as np, scipy.stats as sts
from vmon import refmodel as R

rng = np.random.default_rng(1)
def lu(lo, hi): return float(np.exp(rng.uniform(np.log(lo), np.log(hi))))
worst = {}
def upd(k, v):
    worst[k] = max(worst.get(k, 0.0), float(np.nanmax(v)) if np.size(v) else 0.0)
def rel(a, b, floor=1e-300):
    a, b = np.asarray(a, float), np.asarray(b, float)
    return np.abs(a - b) / np.maximum(np.maximum(np.abs(a), np.abs(b)), floor)

for it in range(400):
    fams = {
        "weibull": (dict(alpha=lu(1e-3,1e3), beta=lu(0.2,20), gamma=rng.choice([0.0, lu(1e-3,10)])), lambda p: sts.weibull_min(p["beta"], loc=p["gamma"], scale=p["alpha"])),
        "lognormal": (dict(mu=rng.uniform(-5,5), sigma=lu(0.02,3)), lambda p: sts.lognorm(p["sigma"], scale=np.exp(p["mu"]))),
        "normal": (dict(mu=rng.uniform(-50,50), sigma=lu(1e-3,1e3)), lambda p: sts.norm(p["mu"], p["sigma"])),
        "expweib": (dict(alpha=lu(1e-3,1e3), beta=lu(0.2,10), delta=lu(0.1,20)), lambda p: sts.exponweib(p["delta"], p["beta"], scale=p["alpha"])),
        "gengamma": (dict(m=lu(0.1,30), c=lu(0.2,8), lambda_=lu(1e-3,1e3)), lambda p: sts.gengamma(p["m"], p["c"], scale=1/p["lambda_"])),
        "vonmises": (dict(kappa=lu(0.05,45), mu=rng.uniform(-3,3)), lambda p: sts.vonmises(p["kappa"], loc=p["mu"])),
        "gamma": (dict(a=lu(0.1,30), loc=rng.uniform(0,3), scale=lu(1e-2,1e2)), lambda p: sts.gamma(p["a"], loc=p["loc"], scale=p["scale"])),
        "rayleigh": (dict(loc=rng.uniform(0,3), scale=lu(1e-2,1e2)), lambda p: sts.rayleigh(loc=p["loc"], scale=p["scale"])),
        "gumbel_r": (dict(loc=rng.uniform(-3,3), scale=lu(1e-2,1e2)), lambda p: sts.gumbel_r(loc=p["loc"], scale=p["scale"])),
    }
    for fam, (p, mk) in fams.items():
        d = mk(p)
        q = np.concatenate([np.linspace(0.001, 0.999, 41), [1e-9, 1e-6, 1-1e-6, 1-1e-9]])
        x = d.ppf(q)
        x = x[np.isfinite(x)]
        c_ref, c_sp = R.cdf(fam, x, **p), d.cdf(x)
        m = (c_sp > 1e-280) & (c_sp < 1)
        upd(fam+".cdf", rel(c_ref[m], c_sp[m]) if fam != "vonmises" else np.abs(c_ref[m]-c_sp[m]))
        s_ref, s_sp = R.sf(fam, x, **p), d.sf(x)
        m = (s_sp > 1e-280)
        if fam == "expweib":  # scipy's exponweib.sf is inaccurate in both tails; use 1-cdf where that is exact enough
            s_sp = 1 - c_sp; m = s_sp > 1e-3
        upd(fam+".sf", rel(s_ref[m], s_sp[m]) if fam != "vonmises" else np.abs(s_ref-s_sp))
        f_ref, f_sp = R.pdf(fam, x, **p), d.pdf(x)
        m = np.isfinite(f_sp) & (f_sp > 1e-280)
        upd(fam+".pdf", rel(f_ref[m], f_sp[m]))
        lf = R.logpdf(fam, x, **p)
        upd(fam+".logpdf", np.abs(lf[m] - d.logpdf(x)[m]) / np.maximum(1, np.abs(lf[m])))
        qq = np.linspace(0.01, 0.99, 25)
        i_ref, i_sp = R.icdf(fam, qq, **p), d.ppf(qq)
        upd(fam+".icdf", rel(i_ref, i_sp) if fam not in ("vonmises","normal","gumbel_r") else np.abs(i_ref-i_sp)/max(1,abs(p.get("sigma",p.get("scale",1)))))
        ss = np.array([1e-12, 1e-8, 1e-4, 0.3])
        if fam not in ("vonmises",):
            upd(fam+".isf", np.abs(R.sf(fam, R.isf(fam, ss, **p), **p) - ss)/ss)
# lnnf: mean and std must be mu_norm, sigma_norm
for it in range(100):
    m_, s_ = lu(0.05, 50), lu(0.01, 50)
    mu, sg = R._lnnf_to_ln(m_, s_)
    d = sts.lognorm(sg, scale=np.exp(mu))
    upd("lnnf.mean", abs(d.mean()-m_)/m_); upd("lnnf.std", abs(d.std()-s_)/s_)
bad = 0
for k in sorted(worst):
    lim = 1e-9 if not k.startswith("vonmises") else 2e-8
    if k.endswith(".isf"): lim = 1e-6
    flag = "" if worst[k] <= lim else "   <-- EXCEEDS"
    bad += worst[k] > lim
    print(f"{k:18s} {worst[k]:.3e}{flag}")
print("REFERENCE AUDIT", "FAILED" if bad else "OK")
sys.exit(1 if bad else 0)
