#!/usr/bin/env python3
"""usage: selftest/recheck_seeds.py [-j N] [--confirm] [names...]
Re-runs every seeded change (default: all with a meta.json) against the CURRENT /repo HEAD and the current checks:
try_patch (scratch worktree, quick tier) and, with --confirm, confirm_seed.sh.  Updates check_result / confirmation
in meta.json (other fields are kept) and prints a table.  Superseded seeds are expected to be silent."""
import json, re, subprocess, sys, os
from concurrent.futures import ThreadPoolExecutor

args = sys.argv[1:]
jobs = 4
confirm = False
names = []
while args:
    a = args.pop(0)
    if a == "-j":
        jobs = int(args.pop(0))
    elif a == "--confirm":
        confirm = True
    else:
        names.append(a)
root = "/verif/seeded"
if not names:
    names = sorted(n for n in os.listdir(root) if os.path.exists(f"{root}/{n}/meta.json"))
head = subprocess.run(["git", "-C", "/repo", "rev-parse", "--short", "HEAD"], capture_output=True, text=True).stdout.strip()


def one(name):
    d = f"{root}/{name}"
    meta = json.load(open(f"{d}/meta.json"))
    prop = meta["breaks_property"]
    if confirm:
        subprocess.run(["/verif/selftest/confirm_seed.sh", name], capture_output=True, text=True)
        conf = open(f"{d}/confirm.log").read().strip().splitlines()
        meta["confirmed_on_repo_head"] = conf[0].replace("repo HEAD: ", "")
        meta["confirmation"] = conf[-1]
    r = subprocess.run(["/verif/selftest/try_patch.sh", f"{d}/patch.diff", prop, "quick"], capture_output=True, text=True)
    log = (r.stdout + r.stderr).splitlines()
    rc = [l for l in log if l.startswith("try_patch:")]
    m_ = re.search(r"exit=(\d+)", rc[-1]) if rc else None
    code = int(m_.group(1)) if m_ else None
    cr = meta.setdefault("check_result", {})
    cr.update({"exit_code": code, "detected": code == 1, "violations_reported": [l for l in log if " x " in l][:8], "checked_at_repo_head": head})
    json.dump(meta, open(f"{d}/meta.json", "w"), indent=1)
    return name, code, meta.get("status", ""), (meta.get("confirmation") or "")[:14]


with ThreadPoolExecutor(jobs) as ex:
    for name, code, status, conf in ex.map(one, names):
        print(f"{name:8s} exit={code} {'DETECTED' if code == 1 else 'silent  '} {conf} {status}", flush=True)
