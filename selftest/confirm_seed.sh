#!/bin/bash
# usage: selftest/confirm_seed.sh <seed-dir-name>   e.g. C01-a
# Confirms a seeded change on a fresh scratch worktree of /repo's HEAD: patch applies, full test-suite result equals the
# baseline (90 passed, 1 failed), demo FAILs with the change and PASSes without. Writes seeded/<name>/confirm.log. Removes the worktree.
set -u
NAME="$1"; DIR=/verif/seeded/$NAME; WT=/tmp/confirm_$NAME
git -C /repo worktree remove --force $WT >/dev/null 2>&1
git -C /repo worktree add --detach $WT HEAD >/dev/null 2>&1 || { echo "cannot create worktree"; exit 2; }
LOG=$DIR/confirm.log; : > $LOG
echo "repo HEAD: $(git -C /repo rev-parse --short HEAD)" >> $LOG
cd $WT
PYRUN="env PYTHONPATH=$WT MPLBACKEND=Agg /venv/bin/python"
echo "== demo on unchanged tree" >> $LOG
timeout 1200 $PYRUN $DIR/demo.py > /tmp/confirm_$NAME.demo0 2>&1; D0=$?
tail -3 /tmp/confirm_$NAME.demo0 >> $LOG; echo "exit=$D0" >> $LOG
if ! git apply $DIR/patch.diff 2>>$LOG; then echo "PATCH DOES NOT APPLY" >> $LOG; APPLY=1; else APPLY=0; fi
echo "== demo with the change" >> $LOG
timeout 1200 $PYRUN $DIR/demo.py > /tmp/confirm_$NAME.demo1 2>&1; D1=$?
tail -5 /tmp/confirm_$NAME.demo1 >> $LOG; echo "exit=$D1" >> $LOG
echo "== full test suite with the change" >> $LOG
timeout 2400 $PYRUN -m pytest -q -p no:cacheprovider --timeout=900 --continue-on-collection-errors -x --deselect tests/test_workflows.py::test_v_hs_hd_contour > /tmp/confirm_$NAME.tests 2>&1
tail -1 /tmp/confirm_$NAME.tests >> $LOG
RES=$(tail -1 /tmp/confirm_$NAME.tests)
cd /; git -C /repo worktree remove --force $WT
OK=no
if [ $APPLY = 0 ] && [ $D0 = 0 ] && [ $D1 != 0 ] && echo "$RES" | grep -q "90 passed" && ! echo "$RES" | grep -q " failed"; then OK=yes; fi
echo "CONFIRMED=$OK (apply=$APPLY demo_unchanged_exit=$D0 demo_changed_exit=$D1 tests: $RES)" | tee -a $LOG
