#!/bin/bash
# usage: [CHECKS="C03 C14"] selftest/sweep.sh <tier> <seed> [<seed> ...]   - runs every registered check (or $CHECKS), prints one status line each
TIER="$1"; shift
cd "$(dirname "$0")/.."   # (the copy this script belongs to: /verif, or a vp-run snapshot)
for s in "$@"; do
  for p in ${CHECKS:-C01 C02 C03 C04 C05 C06 C07 C08 C09 C10 C11 C12 C13 C14 C15 C16 C17 C18 C19 C20}; do
    t0=$(date +%s)
    VERIF_EVIDENCE_DIR=/tmp/sweep_evid VERIF_REPLAY_DIR=/tmp/sweep_replays VERIF_SEED=$s ./check $p --tier $TIER > /tmp/sweep_${TIER}_$p.log 2>&1; rc=$?
    t1=$(date +%s)
    echo "seed=$s $p exit=$rc $((t1-t0))s $(grep -cE '^KNOWN-FINDING' /tmp/sweep_${TIER}_$p.log) known | $(grep -E ' x |INCONCLUSIVE' /tmp/sweep_${TIER}_$p.log | head -3 | cut -c1-160 | tr '\n' ';')"
  done
done
