#!/bin/bash
# usage: selftest/record_seed.sh <seed-name> <PROP> "<what it needs to manifest>" ["<adaptations>"]
# Writes seeded/<name>/meta.json from confirm.log (runs confirm_seed.sh if missing) and a quick-tier run of the check against the patch.
set -u
NAME="$1"; PROP="$2"; NEEDS="$3"; ADAPT="${4:-}"
DIR=/verif/seeded/$NAME
cd /verif
[ -s $DIR/confirm.log ] && grep -q "CONFIRMED=" $DIR/confirm.log || selftest/confirm_seed.sh $NAME >/dev/null 2>&1
selftest/try_patch.sh $DIR/patch.diff $PROP quick > /tmp/record_$NAME.log 2>&1
python3 - "$NAME" "$PROP" "$NEEDS" "$ADAPT" <<'PY'
import json,sys,re,subprocess
name,prop,needs,adapt=sys.argv[1:5]
d=f"/verif/seeded/{name}"
conf=open(f"{d}/confirm.log").read().strip().splitlines()
log=open(f"/tmp/record_{name}.log").read().strip().splitlines()
rc=[l for l in log if l.startswith("try_patch:")]
exitcode=int(re.search(r"exit=(\d+)", rc[-1]).group(1)) if rc else None
meta={
 "seed": name, "breaks_property": prop,
 "needs_to_manifest": needs,
 "written_by": "independent sub-agent given only the property text and a scratch worktree",
 "files": ["patch.diff","demo.py","notes.md","confirm.log"],
 "confirmed_on_repo_head": conf[0].replace("repo HEAD: ","") if conf else None,
 "confirmation": conf[-1] if conf else None,
 "what_was_run": [f"selftest/confirm_seed.sh {name}  (fresh worktree of /repo HEAD: patch applies; demo.py PASS without / FAIL with the change; full test suite 90 passed)",
                  f"selftest/try_patch.sh seeded/{name}/patch.diff {prop} quick  (git -C /repo apply; ./check {prop} --tier quick; git -C /repo checkout -- .)"],
 "check_result": {"exit_code": exitcode, "detected": exitcode==1, "violations_reported": [l for l in log if " x " in l][:8]},
}
if adapt: meta["adaptations_of_the_demonstration"]=adapt
json.dump(meta,open(f"{d}/meta.json","w"),indent=1)
print(name, "detected" if exitcode==1 else f"NOT detected (exit {exitcode})", "|", conf[-1][:40] if conf else "no confirm")
PY
