#!/bin/bash
# usage: selftest/try_patch.sh <patch.diff> <PROP> [tier]
# Runs a check against /repo's HEAD + the patch.  Default: in a scratch worktree under /tmp handed to the check through
# VERIF_REPO (so other runs against /repo are not disturbed); with TRY_PATCH_INPLACE=1 the patch is applied to /repo itself
# (git -C /repo apply) and ALWAYS reverted (git -C /repo checkout -- .).
set -u
PATCH="$(readlink -f "$1")"; PROP="$2"; TIER="${3:-quick}"
TAG="$(basename "$(dirname "$PATCH")")_$(basename "$PATCH" .diff)_$$"
cd /verif
if [ "${TRY_PATCH_INPLACE:-0}" = "1" ]; then
  if ! git -C /repo diff --quiet -- virocon; then echo "try_patch: /repo has uncommitted changes - refusing"; exit 3; fi
  git -C /repo apply "$PATCH" || { echo "try_patch: patch does not apply"; exit 3; }
  trap 'git -C /repo checkout -- . ' EXIT
  ./check "$PROP" --tier "$TIER" > /tmp/try_patch_$TAG.log 2>&1; rc=$?
else
  WT=/tmp/trypatch_$TAG
  git -C /repo worktree add --detach "$WT" HEAD >/dev/null 2>&1 || { echo "try_patch: cannot create worktree"; exit 3; }
  trap 'git -C /repo worktree remove --force "$WT" >/dev/null 2>&1' EXIT
  git -C "$WT" apply "$PATCH" || { echo "try_patch: patch does not apply"; exit 3; }
  mkdir -p /tmp/trypatch_out_$TAG
  VERIF_EVIDENCE_DIR=/tmp/trypatch_out_$TAG VERIF_REPLAY_DIR=/tmp/trypatch_out_$TAG VERIF_REPO="$WT" ./check "$PROP" --tier "$TIER" > /tmp/try_patch_$TAG.log 2>&1; rc=$?
fi
cp /tmp/try_patch_$TAG.log /tmp/try_patch_last_$PROP.log
grep -E " x |held on|INCONCLUSIVE|KNOWN-FINDING|unlisted" /tmp/try_patch_$TAG.log | cut -c1-260 | head -12
echo "try_patch: $PROP $TIER exit=$rc  ($(basename $(dirname $PATCH)))"
rm -rf /tmp/try_patch_$TAG.log /tmp/trypatch_out_$TAG
exit 0
