#!/bin/bash
# usage: selftest/try_patch.sh <patch.diff> <PROP> [tier] ; applies the patch to /repo, runs the check, ALWAYS reverts.
set -u
PATCH="$(readlink -f "$1")"; PROP="$2"; TIER="${3:-quick}"
cd /verif
if ! git -C /repo diff --quiet -- virocon; then echo "try_patch: /repo has uncommitted changes - refusing"; exit 3; fi
git -C /repo apply "$PATCH" || { echo "try_patch: patch does not apply"; exit 3; }
trap 'git -C /repo checkout -- . ' EXIT
./check "$PROP" --tier "$TIER" > /tmp/try_patch_$PROP.log 2>&1
rc=$?
grep -E " x |held on|INCONCLUSIVE|KNOWN-FINDING|unlisted" /tmp/try_patch_$PROP.log | cut -c1-260 | head -12
echo "try_patch: $PROP $TIER exit=$rc  ($(basename $(dirname $PATCH)))"
exit 0
