#!/bin/bash
# Offline setup: puts icontract (runtime contracts) beside the repository's
# interpreter, in the git-ignored /verif/.deps. Idempotent; guarded by flock so
# that checks started in parallel do not install twice.
set -u
HERE="$(cd "$(dirname "${BASH_SOURCE[0]}")" && pwd)"
cd "$HERE"
mkdir -p .deps .work replays evidence
(
  flock 9
  if [ ! -d .deps/icontract ]; then
    PIP_NO_INDEX=1 /venv/bin/pip install --quiet --no-index \
      --find-links /opt/veriftools/wheels --target .deps icontract \
      || echo "setup: icontract not installable; plain wrappers are used instead" >&2
  fi
) 9>.work/setup.lock
exit 0
